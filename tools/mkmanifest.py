#!/usr/bin/env python3
"""Regenerates /verif/MANIFEST.json from levels.json (one source of truth for per-property texts)."""
import json, os, subprocess
V = os.path.dirname(os.path.dirname(os.path.abspath(__file__)))
lv = json.load(open(os.path.join(V, 'levels.json')))
props = [json.loads(l) for l in open(os.path.join(V, 'properties.jsonl'))]
try:
    commits = subprocess.check_output(['git', '-C', '/repo', 'log', '--format=%H %s']).decode().splitlines()
except Exception:
    commits = []
hook_commits = [c.split()[0] for c in commits if 'verification hook' in c.lower() or c.split(' ', 1)[1].startswith('verif:')]
checks, na = [], []
for p in props:
    i = p['id']
    l = lv.get(i)
    if not l or not l.get('claimed', True):
        na.append({'property_id': i, 'reason': (l or {}).get('na_reason', 'monitor not built yet in this framework (runtime monitoring applies; see DESIGN.md section 3)')})
        continue
    checks.append({
        'property_id': i,
        'quick_cmd': './check %s quick' % i,
        'thorough_cmd': './check %s thorough' % i,
        'evidence_file': '/verif/evidence/%s.json' % i,
        'replay_cmd_template': './check %s --replay {path}' % i,
        'engine': 'helios-rv-harness',
        'level_claimed': {'category': l.get('category', 'exploration'), 'text': l['text'], 'design_ref': l.get('design_ref', 'DESIGN.md section 3, ' + i)},
        'level_note': l['note'],
        'technique': l['technique'],
    })
m = {
    'version': 1,
    'setup_cmd': './setup.sh',
    'hooks': {'guard': 'verif', 'enable': 'go test -c -tags verif (plus faketime and CGO_ENABLED=0 for the virtual-clock flavour, -race for the race flavour) on a scratch copy of /repo',
              'baseline_off_cmd': 'cd /repo && GOFLAGS=-mod=mod go test -json -vet=off -count=1 -timeout 25m ./...',
              'source_commits': hook_commits, 'add_only': True},
    'engines': [{'name': 'helios-rv-harness', 'path': '/verif/check', 'serves_properties': [c['property_id'] for c in checks],
                 'kind_free_text': 'runtime monitoring: the real code is built from /repo with the verif hooks and run under scripted hostile workloads (virtual clock via the Go runtime faketime mode, the race detector, the shipped binary); reference-model, differential and journal monitors decide; orchestrated by /verif/check'}],
    'checks': checks,
    'not_applicable': na,
    'notes': 'All verdicts are "held on the executions described in the evidence file". See DESIGN.md. known_findings.txt lists recorded findings and fixed defects.',
}
json.dump(m, open(os.path.join(V, 'MANIFEST.json'), 'w'), indent=1)
print('checks:', len(checks), 'not_applicable:', len(na))
