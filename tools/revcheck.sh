#!/bin/sh
# usage: revcheck.sh <fix-commit> <property> [extra check args]
# Runs a check against a scratch worktree of /repo in which one fix commit is reverted.
c=$1; p=$2; shift 2
d=$(mktemp -d /tmp/rv-XXXX) && [ -n "$d" ] || { echo "no scratch directory (disk full?)"; exit 2; }
git -C /repo worktree add -q --detach $d HEAD || exit 2
( cd $d && git revert --no-commit $c >/dev/null 2>&1 ) || { echo "revert failed"; git -C /repo worktree remove --force $d; exit 2; }
VERIF_REPO=$d /verif/check $p quick "$@" 2>&1 | grep -E "VIOLATION|signature|KNOWN|INFRA|violations=" | head -${REVLINES:-12}
git -C /repo worktree remove --force $d
