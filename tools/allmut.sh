#!/bin/bash
# Runs every stored seeded change against the check(s) recorded in its meta.json (quick tier) and prints one line each.
# usage: tools/allmut.sh [name-prefix]
export GOFLAGS=-mod=mod GOPROXY=off GOSUMDB=off GOTOOLCHAIN=local
for dir in /verif/seeded/${1}*/; do
  name=$(basename $dir)
  props=$(python3 -c "import json;print(' '.join(json.load(open('$dir/meta.json')).get('detected_by',[])))")
  d=$(mktemp -d /tmp/am-XXXX) && [ -n "$d" ] || { echo "no scratch directory (disk full?)"; exit 2; }
  git -C /repo worktree add -q --detach $d HEAD || continue
  if ( cd $d && ( git apply $dir/patch.diff 2>/dev/null || git apply --3way $dir/patch.diff 2>/dev/null ) ); then
    for p in $props; do
      out=$(VERIF_REPO=$d /verif/check $p quick 2>&1)
      n=$(echo "$out" | grep -c '^VIOLATION')
      echo "$name $p violations=$n $(echo "$out" | grep -E 'INFRA|BUILD FAILED' | head -1)"
    done
  else
    echo "$name PATCH-DOES-NOT-APPLY"
  fi
  git -C /repo worktree remove --force $d
done
