#!/bin/bash
# Applies every stored behaviour-preserving refactoring (benign/<name>/patch.diff) to a fresh worktree of /repo HEAD and runs
# the given checks (default: all 20) in the quick tier against it. Prints one line per (refactoring, check) that is not clean.
# usage: tools/allbenign.sh [name-prefix] [checks...]
export GOFLAGS=-mod=mod GOPROXY=off GOSUMDB=off GOTOOLCHAIN=local
prefix=$1; shift
checks=${@:-C01 C02 C03 C04 C05 C06 C07 C08 C09 C10 C11 C12 C13 C14 C15 C16 C17 C18 C19 C20}
for dir in /verif/benign/${prefix}*/; do
  name=$(basename $dir)
  d=$(mktemp -d /tmp/bn-XXXX) && [ -n "$d" ] || { echo "no scratch directory (disk full?)"; exit 2; }
  git -C /repo worktree add -q --detach $d HEAD || continue
  if ( cd $d && git apply $dir/patch.diff 2>/dev/null ); then
    for p in $checks; do
      out=$(VERIF_REPO=$d /verif/check $p quick 2>&1)
      n=$(echo "$out" | grep -c '^VIOLATION')
      extra=$(echo "$out" | grep -E 'INFRA|BUILD FAILED' | head -1 | cut -c1-160)
      if [ "$n" != "0" ] || [ -n "$extra" ]; then echo "$name $p violations=$n $(echo "$out" | grep signature: | head -2 | tr '\n' ';') $extra"; fi
    done
    echo "$name done"
  else
    echo "$name PATCH-DOES-NOT-APPLY"
  fi
  git -C /repo worktree remove --force $d
done
