#!/bin/bash
# usage: mutcheck.sh <outdir e.g. /tmp/mut/out-C07/a> <property-to-check> [more properties...]
# 1. confirms the seeded change: applies to /repo HEAD, suite passes, demo fails with / passes without;
# 2. runs the given checks against it; 3. prints a summary line.
export GOFLAGS=-mod=mod GOPROXY=off GOSUMDB=off GOTOOLCHAIN=local
src=$1; shift
d=$(mktemp -d /tmp/mc-XXXX) && [ -n "$d" ] || { echo "no scratch directory (disk full?)"; exit 2; }
git -C /repo worktree add -q --detach $d HEAD || exit 2
trap "git -C /repo worktree remove --force $d" EXIT
pk=$(python3 -c "import json;print(json.load(open('$src/meta.json')).get('demo_package_dir',''))")
demos=$(ls $src/*_test.go 2>/dev/null)
res=""
# demo without patch
if [ -n "$demos" ] && [ -n "$pk" ]; then
  cp $demos $d/$pk/
  ( cd $d && timeout 600 go test -vet=off -count=1 ./$pk/ >/tmp/mc-nopatch.log 2>&1 ) && res="$res demo_without=PASS" || res="$res demo_without=FAIL"
fi
( cd $d && ( git apply $src/patch.diff 2>/dev/null || git apply --3way $src/patch.diff ) ) || { echo "PATCH DOES NOT APPLY"; exit 2; }
if [ -n "$demos" ] && [ -n "$pk" ]; then
  ( cd $d && timeout 600 go test -vet=off -count=1 ./$pk/ >/tmp/mc-patch.log 2>&1 ) && res="$res demo_with=PASS" || res="$res demo_with=FAIL"
  for f in $demos; do rm -f $d/$pk/$(basename $f); done
fi
( cd $d && go build ./... && timeout 900 go test -vet=off -count=1 ./... >/tmp/mc-suite.log 2>&1 ) && res="$res suite=PASS" || res="$res suite=FAIL"
echo "CONFIRM $src:$res"
for p in "$@"; do
  out=$(VERIF_REPO=$d /verif/check $p quick 2>&1)
  n=$(echo "$out" | grep -c '^VIOLATION')
  echo "CHECK $p on $src: violations=$n $(echo "$out" | grep -E 'signature:' | head -3 | tr '\n' ';') $(echo "$out" | grep -E 'INFRA|BUILD FAILED' | head -2)"
done
