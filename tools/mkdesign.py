#!/usr/bin/env python3
"""Rewrites the generated blocks of DESIGN.md (fixed defects, findings, seeded-change matrix) from
known_findings.txt and seeded/*/meta.json."""
import json, glob, os, re
V = os.path.dirname(os.path.dirname(os.path.abspath(__file__)))
d = open(os.path.join(V, 'DESIGN.md')).read()
fix = [l.rstrip('\n') for l in open(os.path.join(V, 'known_findings.txt')) if l.startswith('fixed:')]
find = [l.rstrip('\n') for l in open(os.path.join(V, 'known_findings.txt')) if l.startswith('finding:')]
rows = ['| seeded change | what it changes (author\'s summary, shortened) | detected by | signature(s) |', '|---|---|---|---|']
n = 0
for p in sorted(glob.glob(os.path.join(V, 'seeded', '*', 'meta.json'))):
    m = json.load(open(p)); n += 1
    rows.append('| %s | %s | %s | `%s` |' % (os.path.basename(os.path.dirname(p)), m.get('summary', '')[:230].replace('\n', ' ').replace('|', '/'),
                                            ', '.join(m.get('detected_by', [])), '; '.join(m.get('signatures', []))[:170].replace('|', '¦')))
def block(name, body):
    global d
    b, e = '<!-- %s-BEGIN -->' % name, '<!-- %s-END -->' % name
    assert b in d and e in d, name
    d = d[:d.index(b) + len(b)] + '\n' + body + '\n' + d[d.index(e):]
block('FIXED', '\n'.join('* ' + l for l in fix))
block('FINDINGS', '\n'.join('* ' + l for l in find))
block('MATRIX', '\n'.join(rows))
lv = json.load(open(os.path.join(V, 'levels.json')))
prow = ['| property | parts (flavour, cases planned in the quick tier, evaluations of the last quick run) | deciding technique |', '|---|---|---|']
for pid in sorted(lv):
    ep = os.path.join(V, 'evidence', pid + '.json')
    parts = ''
    if os.path.exists(ep):
        ev = json.load(open(ep))
        parts = '; '.join('%s (%s, %d cases, %d evaluations)' % (k, v.get('flavour'), v.get('cases_planned', 0), v.get('evaluations', 0)) for k, v in ev['coverage'].get('parts', {}).items())
    prow.append('| %s | %s | %s |' % (pid, parts, lv[pid].get('technique', '')))
block('PARTS', '\n'.join(prow))
d = re.sub(r'<!-- NSEEDED -->\d+', '<!-- NSEEDED -->%d' % n, d)
d = re.sub(r'<!-- NFIXED -->\d+', '<!-- NFIXED -->%d' % len(fix), d)
open(os.path.join(V, 'DESIGN.md'), 'w').write(d)
print('fixed', len(fix), 'findings', len(find), 'seeded', n)
