#!/bin/bash
# Parallel variant of allmut.sh: tools/allmut_par.sh [jobs] > result file; one line per (seeded change, check).
J=${1:-4}
ls /verif/seeded | xargs -P $J -I{} /verif/tools/allmut.sh {}
