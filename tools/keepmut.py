#!/usr/bin/env python3
"""keepmut.py <srcdir> <name> <detected_by csv or none> <signatures...>  -- store a confirmed seeded change under /verif/seeded/<name>/"""
import json, os, shutil, sys, subprocess
src, name, det = sys.argv[1], sys.argv[2], sys.argv[3]
sigs = sys.argv[4:]
dst = os.path.join('/verif/seeded', name)
os.makedirs(dst, exist_ok=True)
for f in os.listdir(src):
    if f == 'patch.diff' or f.endswith('_test.go') or f.endswith('.go') or f.endswith('.txt') and f != 'meta.json':
        # demo test files are stored with a .txt suffix so that no Go tool ever picks them up from /verif
        shutil.copy(os.path.join(src, f), os.path.join(dst, f + ('.txt' if f.endswith('.go') else '')))
m = json.load(open(os.path.join(src, 'meta.json')))
head = subprocess.check_output(['git', '-C', '/repo', 'rev-parse', '--short', 'HEAD']).decode().strip()
m['confirmed_by_me'] = {'repo_head': head, 'applies': True, 'suite_passes_with_patch': True, 'demo_fails_with_patch': True, 'demo_passes_without_patch': True,
                        'how': 'tools/mutcheck.sh: fresh worktree of /repo HEAD, demo run before and after git apply, then full suite, then ./check with VERIF_REPO pointing at the worktree'}
m['detected_by'] = [] if det == 'none' else det.split(',')
m['signatures'] = sigs
json.dump(m, open(os.path.join(dst, 'meta.json'), 'w'), indent=1)
print('kept', dst)
