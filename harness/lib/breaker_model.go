package verifh

import (
	"fmt"
	"time"
)

// Breaker acceptor (DESIGN.md Appendix A.1), written from the C07 statement.
// It is a nondeterministic acceptor: where the statement leaves behaviour
// open (does closing forget old failures?) it keeps every allowed state and
// observations filter the set. A violation is an observation no state allows.

// Outcome of one request as seen at the API boundary.
type Outcome int

const (
	RanOK Outcome = iota
	RanFail
	RanPanic
	RejOpen
	RejMany
)

func (o Outcome) String() string {
	return [...]string{"ran-ok", "ran-fail", "ran-panic", "rej-open", "rej-many"}[o]
}

// Observed breaker state names.
const (
	StClosed = "CLOSED"
	StOpen   = "OPEN"
	StHalf   = "HALF-OPEN"
)

type bmode int

const (
	mClosed bmode = iota
	mOpen
	mHalf
)

type bstate struct {
	mode     bmode
	cnt      int
	lastFail time.Duration
	hasFail  bool
	tripAt   time.Duration
	admitted int
	succ     int
}

// BreakerModel is the acceptor.
type BreakerModel struct {
	FT, ST, MR        int
	Interval, Timeout time.Duration
	states            []bstate
	Visited           map[string]struct{} // distinct abstract states seen
	// Done, when set before a Step, is the instant the fed request completed at its client (0: it took no time).
	// A failure counts from the moment it is known, so the open period starts no earlier than that.
	Done time.Duration
}

// NewBreakerModel creates the acceptor in the closed state.
func NewBreakerModel(ft, st, mr int, interval, timeout time.Duration) *BreakerModel {
	return &BreakerModel{FT: ft, ST: st, MR: mr, Interval: interval, Timeout: timeout, states: []bstate{{mode: mClosed}}, Visited: map[string]struct{}{}}
}

// Modes returns the set of modes the acceptor currently allows ("closed", "open", "half").
func (m *BreakerModel) Modes() map[string]bool {
	r := map[string]bool{}
	for _, s := range m.states {
		r[[...]string{"closed", "open", "half"}[s.mode]] = true
	}
	return r
}

// Step feeds one observed request: time t (since an arbitrary origin), its
// outcome, and the state reported right after it. It returns "" if some
// allowed state explains the observation, else a description of the violation
// and a short signature kind.
func (m *BreakerModel) Step(t time.Duration, o Outcome, stateAfter string) (kind, desc string) {
	// the instant at which this request's outcome can have been recorded at the earliest
	trip := t
	if m.Done > t+50*time.Millisecond {
		trip = m.Done - 50*time.Millisecond
	}
	m.Done = 0
	var next []bstate
	var why []string
	for _, s := range m.states {
		// open -> half-open when the timeout has elapsed
		if s.mode == mOpen && t > s.tripAt+m.Timeout {
			s.mode, s.admitted, s.succ = mHalf, 0, 0
		}
		switch s.mode {
		case mClosed:
			if o == RejOpen || o == RejMany {
				why = append(why, "rejected-while-closed|request rejected ("+o.String()+") although fewer than failure_threshold failures had accumulated")
				continue
			}
			if o == RanFail || o == RanPanic {
				if s.hasFail && t-s.lastFail > m.Interval {
					s.cnt = 1
				} else {
					s.cnt++
				}
				s.lastFail, s.hasFail = t, true
				if s.cnt >= m.FT {
					s.mode, s.tripAt = mOpen, trip
					if stateAfter != StOpen {
						why = append(why, fmt.Sprintf("not-open-after-threshold|%d failures accumulated (threshold %d) but the breaker reports %s", s.cnt, m.FT, stateAfter))
						continue
					}
					next = append(next, s)
					continue
				}
			}
			if stateAfter != StClosed {
				why = append(why, fmt.Sprintf("opened-early|breaker reports %s with %d of %d failures", stateAfter, s.cnt, m.FT))
				continue
			}
			next = append(next, s)
		case mOpen:
			if o != RejOpen {
				why = append(why, "admitted-while-open|request "+o.String()+" while the breaker was open and timeout had not elapsed")
				continue
			}
			if stateAfter != StOpen {
				why = append(why, "left-open-early|breaker reports "+stateAfter+" before timeout elapsed")
				continue
			}
			next = append(next, s)
		case mHalf:
			switch o {
			case RejOpen, RejMany:
				// safety allows refusing; liveness (C08) decides whether too much is refused
				if stateAfter == StClosed {
					why = append(why, "closed-without-trial|breaker closed on a rejected request")
					continue
				}
				next = append(next, s)
			case RanOK:
				s.admitted++
				if s.admitted > m.MR {
					why = append(why, fmt.Sprintf("too-many-trials|%d trial requests admitted in half-open, max_requests is %d", s.admitted, m.MR))
					continue
				}
				s.succ++
				if stateAfter == StClosed {
					if s.succ < m.ST {
						why = append(why, fmt.Sprintf("closed-early|breaker closed after %d successful trials, success_threshold is %d", s.succ, m.ST))
						continue
					}
					// closing may or may not forget pre-trip failures
					a := s
					a.mode, a.cnt = mClosed, 0
					next = append(next, a)
					b := s
					b.mode = mClosed
					if b.cnt != 0 {
						next = append(next, b)
					}
					continue
				}
				if stateAfter == StOpen {
					why = append(why, "reopened-on-success|breaker reports OPEN after a successful trial")
					continue
				}
				next = append(next, s)
			case RanFail, RanPanic:
				s.admitted++
				if s.admitted > m.MR {
					why = append(why, fmt.Sprintf("too-many-trials|%d trial requests admitted in half-open, max_requests is %d", s.admitted, m.MR))
					continue
				}
				if s.hasFail && t-s.lastFail > m.Interval {
					s.cnt = 1
				} else {
					s.cnt++
				}
				s.lastFail, s.hasFail = t, true
				s.mode, s.tripAt = mOpen, trip
				if stateAfter != StOpen {
					why = append(why, "not-reopened-on-trial-failure|a trial request failed but the breaker reports "+stateAfter)
					continue
				}
				next = append(next, s)
			}
		}
	}
	if len(next) == 0 {
		k := "unexplained"
		d := "no allowed state explains the observation"
		if len(why) > 0 {
			p := why[0]
			for i := 0; i < len(p); i++ {
				if p[i] == '|' {
					k, d = p[:i], p[i+1:]
					break
				}
			}
		}
		return k, d
	}
	// de-duplicate
	seen := map[bstate]bool{}
	m.states = m.states[:0]
	for _, s := range next {
		if !seen[s] {
			seen[s] = true
			m.states = append(m.states, s)
			m.Visited[fmt.Sprintf("%d/%d/%d/%d", s.mode, minInt(s.cnt, m.FT), s.admitted, s.succ)] = struct{}{}
		}
	}
	return "", ""
}

func minInt(a, b int) int {
	if a < b {
		return a
	}
	return b
}
