package verifh

import (
	"encoding/base64"
	"encoding/json"
	"fmt"
	"hash/fnv"
	"io"
	"net"
	"net/http"
	"os"
	"strconv"
	"strings"
	"sync"
	"syscall"
	"time"
)

// ScriptHeader carries the per-request behaviour of the scripted backend.
const ScriptHeader = "X-Verif-Script"

// XIDHeader carries the unique exchange id.
const XIDHeader = "X-Verif-Xid"

// Step is one action of a scripted response body.
type Step struct {
	Op  string `json:"op"`            // write | flush | sleep | hang | reset | hold | closeconn
	N   int    `json:"n,omitempty"`   // bytes for write
	Ms  int    `json:"ms,omitempty"`  // milliseconds for sleep
	Key string `json:"key,omitempty"` // hold key
}

// Interim is a 1xx response sent before the final one.
type Interim struct {
	Code    int         `json:"code"`
	Headers [][2]string `json:"headers,omitempty"`
}

// Script describes how the backend answers one request.
type Script struct {
	Status       int         `json:"status,omitempty"`
	Headers      [][2]string `json:"headers,omitempty"`
	Interim      []Interim   `json:"interim,omitempty"`
	Steps        []Step      `json:"steps,omitempty"`
	Framing      string      `json:"framing,omitempty"`  // "" (server decides) | cl | chunked
	Declared     int         `json:"declared,omitempty"` // with cl: declare this many instead of the real total
	Trailers     [][2]string `json:"trailers,omitempty"`
	SkipBody     bool        `json:"skip_body,omitempty"`
	Seed         int         `json:"seed,omitempty"`
	Compressible bool        `json:"compressible,omitempty"`
	Raw          string      `json:"raw,omitempty"`           // hijack and write these literal bytes, then close
	RawReset     bool        `json:"raw_reset,omitempty"`     // close with RST after Raw
	RawHoldMs    int         `json:"raw_hold_ms,omitempty"`   // after Raw keep the connection open (reading) this long, or until the peer closes
	Gzip         bool        `json:"gzip,omitempty"`          // body bytes are a gzip stream of the generated body
	HangFirst    bool        `json:"hang_first,omitempty"`    // never send a header block (wait until the peer gives up)
	HoldFirstMs  int         `json:"hold_first_ms,omitempty"` // wait this long before sending the header block
	Implicit     bool        `json:"implicit,omitempty"`      // do not call WriteHeader: the first Write / the end of the handler commits the status (200)
}

// Encode renders the script for the ScriptHeader.
func (s Script) Encode() string {
	b, _ := json.Marshal(s)
	return base64.StdEncoding.EncodeToString(b)
}

// TotalBody returns the number of body bytes the steps write.
func (s Script) TotalBody() int {
	n := 0
	for _, st := range s.Steps {
		if st.Op == "write" {
			n += st.N
		}
	}
	return n
}

// GenBody returns n deterministic bytes starting at offset off of stream seed.
func GenBody(seed, off, n int, compressible bool) []byte {
	b := make([]byte, n)
	if compressible {
		pat := []byte(fmt.Sprintf("{\"k%d\":\"value-%d\"},", seed%7, seed))
		for i := range b {
			b[i] = pat[(off+i)%len(pat)]
		}
		return b
	}
	x := uint64(seed)*0x9E3779B97F4A7C15 + 0x1234567
	for i := range b {
		p := uint64(off + i)
		z := (x + p*0xBF58476D1CE4E5B9)
		z ^= z >> 31
		z *= 0x94D049BB133111EB
		z ^= z >> 29
		b[i] = byte(z)
	}
	return b
}

// Arrival is what a backend saw of one request.
type Arrival struct {
	Backend  string      `json:"backend"`
	At       int64       `json:"at_ns"` // time since Epoch
	Method   string      `json:"method"`
	URI      string      `json:"uri"`
	Proto    string      `json:"proto"`
	Host     string      `json:"host"`
	Header   http.Header `json:"header"`
	CL       int64       `json:"cl"`
	TE       []string    `json:"te,omitempty"`
	BodyLen  int         `json:"body_len"`
	BodyHash uint64      `json:"body_hash"`
	BodyErr  string      `json:"body_err,omitempty"`
	Trailer  http.Header `json:"trailer,omitempty"`
	XID      string      `json:"xid"`
	Remote   string      `json:"remote"`
	IsProbe  bool        `json:"is_probe,omitempty"`
}

// Epoch is the reference for journal times.
var Epoch = time.Now()

// NowNS returns ns since Epoch (virtual under SIM).
func NowNS() int64 { return int64(time.Since(Epoch)) }

// Backend is a scripted HTTP backend on a loopback listener.
type Backend struct {
	Name     string
	Addr     string
	URL      string
	ln       net.Listener
	srv      *http.Server
	mu       sync.Mutex
	arrivals []Arrival
	Default  Script
	// ProbeStatus/ProbeDelay control the answer to the active health-check path.
	ProbePath   string
	ProbeStatus int
	ProbeDelay  time.Duration
	probes      []int64
	probeLog    []ProbeEntry
	reservedFD  int
	lost        bool
	holds       map[string]chan struct{}
	inflight    int
	extra       http.Handler
}

// NewBackend starts a scripted backend.
func NewBackend(name string) *Backend {
	ln := ListenLoopback()
	b := &Backend{Name: name, ln: ln, Addr: ln.Addr().String(), ProbePath: "/health", ProbeStatus: 200, holds: map[string]chan struct{}{}}
	b.URL = "http://" + b.Addr
	b.Default = Script{Status: 200, Headers: [][2]string{{"Content-Type", "text/plain"}, {"X-Backend", name}}, Steps: nil}
	b.srv = &http.Server{Handler: http.HandlerFunc(b.serve)}
	go b.srv.Serve(ln)
	return b
}

// SetExtra installs a handler consulted first (e.g. websocket endpoint); it
// must return true... implemented as: paths starting with /ws go to extra.
func (b *Backend) SetExtra(h http.Handler) { b.extra = h }

// Handler returns the scripted handler itself (to place it directly behind a middleware chain).
func (b *Backend) Handler() http.Handler { return http.HandlerFunc(b.serve) }

// Down closes the listener and all connections: connections are refused until Up. The port is kept reserved by a
// bound, non-listening socket (connecting to it is refused), so that no other process can be handed the port while
// the backend is down - parallel shards create listeners all the time.
func (b *Backend) Down() {
	b.srv.Close()
	b.reserve()
}

func (b *Backend) reserve() {
	_, portStr, _ := net.SplitHostPort(b.Addr)
	port, _ := strconv.Atoi(portStr)
	fd, err := syscall.Socket(syscall.AF_INET, syscall.SOCK_STREAM, 0)
	if err != nil {
		return
	}
	syscall.SetsockoptInt(fd, syscall.SOL_SOCKET, syscall.SO_REUSEADDR, 1)
	if err := syscall.Bind(fd, &syscall.SockaddrInet4{Port: port, Addr: [4]byte{127, 0, 0, 1}}); err != nil {
		syscall.Close(fd)
		return
	}
	b.reservedFD = fd
}

// Up listens again on the same address. If the port has been lost to another process after all, the running
// case is flagged as disturbed (it is re-executed by the framework) instead of crashing the child.
func (b *Backend) Up() {
	var ln net.Listener
	var err error
	if b.reservedFD > 0 {
		// listen on the very socket that kept the port while the backend was down: no moment in which another
		// process could take the port
		if syscall.Listen(b.reservedFD, 512) == nil {
			f := os.NewFile(uintptr(b.reservedFD), "reserved-port")
			ln, err = net.FileListener(f) // duplicates the descriptor
			f.Close()
		} else {
			syscall.Close(b.reservedFD)
		}
		b.reservedFD = 0
	}
	for i := 0; i < 300 && ln == nil; i++ {
		ln, err = net.Listen("tcp", b.Addr)
		if err == nil {
			break
		}
		RealSleep(int64(time.Millisecond))
	}
	if ln == nil {
		FlagAnomaly(fmt.Sprintf("scripted backend could not listen on its port again: %v", err))
		b.lost = true
		return
	}
	b.ln = ln
	b.srv = &http.Server{Handler: http.HandlerFunc(b.serve)}
	go b.srv.Serve(ln)
}

// ProbeLog returns (time, status answered) of every health probe received.
func (b *Backend) ProbeLog() []ProbeEntry {
	b.mu.Lock()
	defer b.mu.Unlock()
	return append([]ProbeEntry(nil), b.probeLog...)
}

// ProbeEntry is one answered health probe.
type ProbeEntry struct {
	At     int64 // arrival, ns since Epoch
	DoneAt int64 // answer sent
	Status int
}

// Close stops the backend (connections are refused afterwards).
func (b *Backend) Close() {
	b.srv.Close()
}

// Arrivals returns a copy of the journal.
func (b *Backend) Arrivals() []Arrival {
	b.mu.Lock()
	defer b.mu.Unlock()
	return append([]Arrival(nil), b.arrivals...)
}

// Count returns the number of non-probe arrivals.
func (b *Backend) Count() int {
	b.mu.Lock()
	defer b.mu.Unlock()
	return len(b.arrivals)
}

// Probes returns the arrival times of health probes.
func (b *Backend) Probes() []int64 {
	b.mu.Lock()
	defer b.mu.Unlock()
	return append([]int64(nil), b.probes...)
}

// Reset clears the journal.
func (b *Backend) Reset() {
	b.mu.Lock()
	b.arrivals = nil
	b.probes = nil
	b.probeLog = nil
	b.mu.Unlock()
}

// Lost reports that the backend could not get its port back after Down (the case that saw it has been flagged).
func (b *Backend) Lost() bool { return b.lost }

// Inflight returns the number of requests currently inside the handler.
func (b *Backend) Inflight() int {
	b.mu.Lock()
	defer b.mu.Unlock()
	return b.inflight
}

// Release lets requests blocked in a hold step with this key continue.
func (b *Backend) Release(key string) {
	b.mu.Lock()
	ch, ok := b.holds[key]
	if !ok {
		ch = make(chan struct{})
		b.holds[key] = ch
	}
	b.mu.Unlock()
	select {
	case <-ch:
	default:
		close(ch)
	}
}

// Rearm makes hold steps with this key block again (after a Release).
func (b *Backend) Rearm(key string) {
	b.mu.Lock()
	delete(b.holds, key)
	b.mu.Unlock()
}

func (b *Backend) holdChan(key string) chan struct{} {
	b.mu.Lock()
	defer b.mu.Unlock()
	ch, ok := b.holds[key]
	if !ok {
		ch = make(chan struct{})
		b.holds[key] = ch
	}
	return ch
}

// SetProbe sets the health probe behaviour.
func (b *Backend) SetProbe(status int, delay time.Duration) {
	b.mu.Lock()
	b.ProbeStatus = status
	b.ProbeDelay = delay
	b.mu.Unlock()
}

func hashBytes(p []byte) uint64 {
	h := fnv.New64a()
	h.Write(p)
	return h.Sum64()
}

func (b *Backend) serve(w http.ResponseWriter, r *http.Request) {
	if b.extra != nil && strings.HasPrefix(r.URL.Path, "/ws") {
		b.extra.ServeHTTP(w, r)
		return
	}
	b.mu.Lock()
	probePath, pst, pdl := b.ProbePath, b.ProbeStatus, b.ProbeDelay
	b.mu.Unlock()
	if r.URL.Path == probePath && r.Header.Get(ScriptHeader) == "" && r.Header.Get(XIDHeader) == "" {
		probeAt := NowNS()
		b.mu.Lock()
		b.probes = append(b.probes, probeAt)
		b.mu.Unlock()
		if pdl > 0 {
			select {
			case <-time.After(pdl):
			case <-r.Context().Done():
				return
			}
		}
		b.mu.Lock()
		pst = b.ProbeStatus
		b.probeLog = append(b.probeLog, ProbeEntry{At: probeAt, DoneAt: NowNS(), Status: pst})
		b.mu.Unlock()
		if pst == 0 {
			// hang up
			if hj, ok := w.(http.Hijacker); ok {
				c, _, _ := hj.Hijack()
				c.Close()
			}
			return
		}
		w.WriteHeader(pst)
		return
	}
	sc := b.Default
	if enc := r.Header.Get(ScriptHeader); enc != "" {
		raw, err := base64.StdEncoding.DecodeString(enc)
		if err == nil {
			var s Script
			if json.Unmarshal(raw, &s) == nil {
				sc = s
			}
		}
	}
	a := Arrival{Backend: b.Name, At: NowNS(), Method: r.Method, URI: r.RequestURI, Proto: r.Proto, Host: r.Host,
		Header: r.Header.Clone(), CL: r.ContentLength, TE: append([]string(nil), r.TransferEncoding...), XID: r.Header.Get(XIDHeader), Remote: r.RemoteAddr}
	b.mu.Lock()
	b.inflight++
	b.mu.Unlock()
	defer func() {
		b.mu.Lock()
		b.inflight--
		b.mu.Unlock()
	}()
	if !sc.SkipBody {
		body, err := io.ReadAll(r.Body)
		a.BodyLen = len(body)
		a.BodyHash = hashBytes(body)
		if err != nil {
			a.BodyErr = err.Error()
		}
		if len(r.Trailer) > 0 {
			a.Trailer = r.Trailer.Clone()
		}
	}
	b.mu.Lock()
	b.arrivals = append(b.arrivals, a)
	b.mu.Unlock()

	if sc.HoldFirstMs > 0 {
		select {
		case <-time.After(time.Duration(sc.HoldFirstMs) * time.Millisecond):
		case <-r.Context().Done():
			return
		}
	}
	if sc.HangFirst {
		select {
		case <-time.After(time.Hour):
		case <-r.Context().Done():
		}
		return
	}
	if sc.Raw != "" || sc.RawReset {
		hj, ok := w.(http.Hijacker)
		if !ok {
			return
		}
		c, _, err := hj.Hijack()
		if err != nil {
			return
		}
		if sc.Raw != "" {
			c.Write([]byte(sc.Raw))
		}
		if sc.RawHoldMs > 0 {
			c.SetReadDeadline(time.Now().Add(time.Duration(sc.RawHoldMs) * time.Millisecond))
			io.Copy(io.Discard, c)
		}
		if sc.RawReset {
			if tc, ok := c.(*net.TCPConn); ok {
				tc.SetLinger(0)
			}
		}
		c.Close()
		return
	}
	for _, in := range sc.Interim {
		for _, h := range in.Headers {
			w.Header().Add(h[0], h[1])
		}
		w.WriteHeader(in.Code)
		for _, h := range in.Headers {
			w.Header().Del(h[0])
		}
	}
	for _, h := range sc.Headers {
		w.Header()[h[0]] = append(w.Header()[h[0]], h[1])
	}
	total := sc.TotalBody()
	var full []byte
	if sc.Gzip {
		full = GzipBytes(GenBody(sc.Seed, 0, total, sc.Compressible))
		total = len(full)
	}
	switch sc.Framing {
	case "cl":
		d := total
		if sc.Declared > 0 {
			d = sc.Declared
		}
		w.Header().Set("Content-Length", strconv.Itoa(d))
	case "chunked":
		w.Header().Set("Transfer-Encoding", "chunked")
	}
	if len(sc.Trailers) > 0 {
		names := []string{}
		for _, t := range sc.Trailers {
			names = append(names, t[0])
		}
		w.Header().Set("Trailer", strings.Join(names, ", "))
	}
	status := sc.Status
	if status == 0 {
		status = 200
	}
	if !sc.Implicit {
		w.WriteHeader(status)
	}
	off := 0
	for _, st := range sc.Steps {
		switch st.Op {
		case "write":
			var chunk []byte
			if sc.Gzip {
				// the whole gzip stream is written by the first write step
				if off == 0 {
					chunk = full
				}
				off += st.N
			} else {
				chunk = GenBody(sc.Seed, off, st.N, sc.Compressible)
				off += st.N
			}
			if len(chunk) > 0 {
				if _, err := w.Write(chunk); err != nil {
					return
				}
			}
		case "flush":
			if f, ok := w.(http.Flusher); ok {
				f.Flush()
			}
		case "sleep":
			select {
			case <-time.After(time.Duration(st.Ms) * time.Millisecond):
			case <-r.Context().Done():
				return
			}
		case "hang":
			select {
			case <-time.After(time.Hour):
			case <-r.Context().Done():
			}
			return
		case "hold":
			select {
			case <-b.holdChan(st.Key):
			case <-time.After(time.Hour):
			case <-r.Context().Done():
				return
			}
		case "reset":
			if hj, ok := w.(http.Hijacker); ok {
				c, _, err := hj.Hijack()
				if err == nil {
					if tc, ok := c.(*net.TCPConn); ok {
						tc.SetLinger(0)
					}
					c.Close()
				}
			}
			return
		case "closeconn":
			if hj, ok := w.(http.Hijacker); ok {
				c, _, err := hj.Hijack()
				if err == nil {
					c.Close()
				}
			}
			return
		}
	}
	for _, t := range sc.Trailers {
		w.Header().Set(t[0], t[1])
	}
}

// ListenLoopback listens on a free loopback port. When the ephemeral port range is exhausted
// (connection churn of parallel checks leaves sockets in TIME_WAIT) it backs off in real time.
func ListenLoopback() net.Listener {
	var err error
	for i := 0; i < 600; i++ {
		var ln net.Listener
		ln, err = net.Listen("tcp", "127.0.0.1:0")
		if err == nil {
			return ln
		}
		RealSleep(int64(200 * time.Millisecond))
	}
	panic(err)
}

// DeadAddr returns a loopback address on which nothing listens.
func DeadAddr() string {
	ln, err := net.Listen("tcp", "127.0.0.1:0")
	if err != nil {
		panic(err)
	}
	a := ln.Addr().String()
	ln.Close()
	return a
}
