//go:build faketime && verifoverlay

package verifh

import _ "unsafe" // go:linkname

// runtimePollDelay is the patched runtime's wait (ns of real time) for network events before the virtual clock
// may jump (see runtime_overlay in /verif/check).
//
//go:linkname runtimePollDelay runtime.verifPollDelay
var runtimePollDelay int64

// SetPollDelay sets how long the idle runtime waits for the network before it lets the virtual clock jump.
func SetPollDelay(ns int64) { runtimePollDelay = ns }

// DefaultPollDelay is the wait in normal operation.
const DefaultPollDelay = 300000
