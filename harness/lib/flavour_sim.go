//go:build faketime

package verifh

// IsSim is true when the binary runs on the runtime's virtual clock.
const IsSim = true
