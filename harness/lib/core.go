// Package verifh is the verification harness library. It is copied into a
// scratch copy of the Helios module (internal/verifh) by /verif/check.
package verifh

import (
	"encoding/json"
	"flag"
	"fmt"
	"hash/fnv"
	"math/rand"
	"os"
	"runtime"
	"runtime/debug"
	"sort"
	"strconv"
	"strings"
	"sync"
	"sync/atomic"
	"time"
)

// Env is what a part sees of the run.
type Env struct {
	Prop    string
	Tier    string // quick | thorough
	Seed    int64
	Sim     bool   // built with faketime
	Race    bool   // built with -race
	BinPath string // path of the real helios binary (BIN parts)
	RepoDir string // scratch copy of the repository (docs, sample configs)
	TmpDir  string // per-job scratch directory
	Shard   int
	NShards int
}

// Thorough reports whether the thorough tier was requested.
func (e *Env) Thorough() bool { return e.Tier == "thorough" }

// Pick returns q in the quick tier and t in the thorough tier.
func (e *Env) Pick(q, t int) int {
	if e.Thorough() {
		return t
	}
	return q
}

// Rand returns a PRNG determined by the seed and the given labels.
func (e *Env) Rand(labels ...any) *rand.Rand {
	h := fnv.New64a()
	fmt.Fprintf(h, "%d|%v", e.Seed, labels)
	return rand.New(rand.NewSource(int64(h.Sum64())))
}

// Violation is one observed violation of the property.
type Violation struct {
	Sig    string `json:"sig"`  // stable signature (known-findings key)
	Desc   string `json:"desc"` // human readable
	Case   any    `json:"case,omitempty"`
	Detail any    `json:"detail,omitempty"`
}

// Out collects what a job observed.
type Out struct {
	mu           sync.Mutex
	Evaluations  int64            `json:"evaluations"`
	Observed     map[string]int64 `json:"observed"`
	Samples      []any            `json:"samples"`
	Violations   []Violation      `json:"violations"`
	ViolCount    map[string]int64 `json:"viol_count"`
	Inconclusive []string         `json:"inconclusive"`
	Anomalies    int64            `json:"anomalies"`
	Exhaustive   bool             `json:"exhaustive"`
	DistinctN    int64            `json:"distinct_n"` // used when hashes are not recorded
	Require      []string         `json:"require"`    // observation keys that must be > 0
	Notes        []string         `json:"notes"`
	hashes       map[uint64]struct{}
	curCase      any
	maxSamples   int
	noConfirm    bool
}

func newOut() *Out {
	return &Out{Observed: map[string]int64{}, ViolCount: map[string]int64{}, hashes: map[uint64]struct{}{}, maxSamples: 3}
}

// Eval counts one evaluation (case executed / input tried).
func (o *Out) Eval(n int64) { o.mu.Lock(); o.Evaluations += n; o.mu.Unlock() }

// Obs adds n to an observation counter.
func (o *Out) Obs(key string, n int64) { o.mu.Lock(); o.Observed[key] += n; o.mu.Unlock() }

// Need declares that an observation key must be non-zero for the run to be non-vacuous.
func (o *Out) Need(keys ...string) {
	o.mu.Lock()
	for _, k := range keys {
		found := false
		for _, r := range o.Require {
			if r == k {
				found = true
			}
		}
		if !found {
			o.Require = append(o.Require, k)
		}
	}
	o.mu.Unlock()
}

// Distinct records a distinct non-trivial case by key.
func (o *Out) Distinct(key string) {
	h := fnv.New64a()
	h.Write([]byte(key))
	o.mu.Lock()
	o.hashes[h.Sum64()] = struct{}{}
	o.mu.Unlock()
}

// DistinctCount adds n distinct cases that are counted without hashing
// (only for enumerations that are distinct by construction).
func (o *Out) DistinctCount(n int64) { o.mu.Lock(); o.DistinctN += n; o.mu.Unlock() }

// Sample keeps a few written-out cases for the evidence file.
func (o *Out) Sample(s any) {
	o.mu.Lock()
	if len(o.Samples) < o.maxSamples {
		o.Samples = append(o.Samples, s)
	}
	o.mu.Unlock()
}

// Note attaches free text to the evidence.
func (o *Out) Note(format string, a ...any) {
	o.mu.Lock()
	if len(o.Notes) < 20 {
		o.Notes = append(o.Notes, fmt.Sprintf(format, a...))
	}
	o.mu.Unlock()
}

// Viol records a violation.
func (o *Out) Viol(sig, desc string, detail any) {
	o.mu.Lock()
	defer o.mu.Unlock()
	o.ViolCount[sig]++
	if o.ViolCount[sig] <= 2 && len(o.Violations) < 60 {
		o.Violations = append(o.Violations, Violation{Sig: sig, Desc: desc, Case: o.curCase, Detail: detail})
	}
}

// Inconcl records an inconclusive case (never a violation, never "held").
func (o *Out) Inconcl(format string, a ...any) {
	o.mu.Lock()
	if len(o.Inconclusive) < 50 {
		o.Inconclusive = append(o.Inconclusive, fmt.Sprintf(format, a...))
	}
	o.mu.Unlock()
}

// Anomaly counts a time anomaly (virtual time moved where it should not).
func (o *Out) Anomaly() { o.mu.Lock(); o.Anomalies++; o.mu.Unlock() }

// Part is one workload+monitor of a property.
type Part struct {
	Prop      string
	Name      string
	Flavour   string // sim | race | plain
	Shards    func(e *Env) int
	TimeoutS  func(e *Env) int
	Procs     int // GOMAXPROCS for race/plain (0 = 16)
	NeedBin   bool
	NoConfirm bool
	gen       func(e *Env) []json.RawMessage
	run       func(e *Env, raw json.RawMessage, o *Out)
	finish    func(e *Env, o *Out)
}

var parts []*Part

// Opts are optional settings of a part.
type Opts struct {
	Shards, ShardsThorough     int
	TimeoutS, TimeoutSThorough int
	Procs                      int
	NeedBin                    bool
	// NoConfirm: violations of this part are reported as they come (parts that explore schedules at hook points
	// without sockets: nothing in them depends on packet delivery, and goroutines leaked by earlier explorations
	// of the same process - pool and limiter tickers - make a second exploration differ from the first)
	NoConfirm bool
}

// AddPart registers a part. gen must be deterministic in (tier, seed).
func AddPart[C any](prop, name, flavour string, op Opts, gen func(e *Env) []C, run func(e *Env, c C, o *Out)) *Part {
	if op.Shards == 0 {
		op.Shards = 1
	}
	if op.ShardsThorough == 0 {
		op.ShardsThorough = op.Shards
	}
	if op.TimeoutS == 0 {
		op.TimeoutS = 240
	}
	if op.TimeoutSThorough == 0 {
		op.TimeoutSThorough = op.TimeoutS * 6
	}
	p := &Part{Prop: prop, Name: name, Flavour: flavour, Procs: op.Procs, NeedBin: op.NeedBin, NoConfirm: op.NoConfirm}
	p.Shards = func(e *Env) int {
		if e.Thorough() {
			return op.ShardsThorough
		}
		return op.Shards
	}
	p.TimeoutS = func(e *Env) int {
		if e.Thorough() {
			return op.TimeoutSThorough
		}
		return op.TimeoutS
	}
	p.gen = func(e *Env) []json.RawMessage {
		cs := gen(e)
		out := make([]json.RawMessage, len(cs))
		for i, c := range cs {
			b, err := json.Marshal(c)
			if err != nil {
				panic(err)
			}
			out[i] = b
		}
		return out
	}
	p.run = func(e *Env, raw json.RawMessage, o *Out) {
		var c C
		if err := json.Unmarshal(raw, &c); err != nil {
			panic(fmt.Sprintf("bad case %s: %v", raw, err))
		}
		run(e, c, o)
	}
	parts = append(parts, p)
	return p
}

// Finish registers a function run after all cases of the shard.
func (p *Part) Finish(f func(e *Env, o *Out)) *Part { p.finish = f; return p }

var (
	fProp   = flag.String("verif.prop", "", "property id")
	fPart   = flag.String("verif.part", "", "part name")
	fTier   = flag.String("verif.tier", "quick", "tier")
	fSeed   = flag.Int64("verif.seed", 1, "seed")
	fShard  = flag.String("verif.shard", "0/1", "shard i/n")
	fOut    = flag.String("verif.out", "", "result file")
	fCur    = flag.String("verif.cur", "", "current-case log file")
	fPlan   = flag.Bool("verif.plan", false, "print plan")
	fReplay = flag.String("verif.replay", "", "replay file")
	fBin    = flag.String("verif.bin", "", "helios binary")
	fRepo   = flag.String("verif.repo", "", "repository copy")
	fTmp    = flag.String("verif.tmp", "", "tmp dir")
	fFlav   = flag.String("verif.flavour", "", "flavour this binary was built as")
)

type planEntry struct {
	Part     string `json:"part"`
	Flavour  string `json:"flavour"`
	Shards   int    `json:"shards"`
	TimeoutS int    `json:"timeout_s"`
	Procs    int    `json:"procs"`
	NeedBin  bool   `json:"need_bin"`
	Cases    int    `json:"cases"`
}

// Main is called from TestMain of package main.
func Main() {
	flag.Parse()
	debug.SetTraceback("all")
	env := &Env{Prop: *fProp, Tier: *fTier, Seed: *fSeed, Sim: IsSim, Race: IsRace, BinPath: *fBin, RepoDir: *fRepo, TmpDir: *fTmp}
	fmt.Sscanf(*fShard, "%d/%d", &env.Shard, &env.NShards)
	if env.NShards <= 0 {
		env.NShards = 1
	}
	if *fPlan {
		var plan []planEntry
		for _, p := range parts {
			if p.Prop != env.Prop {
				continue
			}
			procs := p.Procs
			if procs == 0 {
				procs = 16
			}
			if p.Flavour == "sim" {
				procs = 1
			}
			plan = append(plan, planEntry{Part: p.Name, Flavour: p.Flavour, Shards: p.Shards(env), TimeoutS: p.TimeoutS(env), Procs: procs, NeedBin: p.NeedBin, Cases: len(p.gen(env))})
		}
		b, _ := json.Marshal(plan)
		WriteFile(*fOut, b)
		os.Exit(0)
	}
	var part *Part
	for _, p := range parts {
		if p.Prop == env.Prop && p.Name == *fPart {
			part = p
		}
	}
	if part == nil {
		fmt.Fprintf(os.Stderr, "no such part %s/%s\n", env.Prop, *fPart)
		os.Exit(3)
	}
	out := newOut()
	out.noConfirm = part.NoConfirm
	var cases []json.RawMessage
	if *fReplay != "" {
		b, err := os.ReadFile(*fReplay)
		if err != nil {
			fmt.Fprintln(os.Stderr, err)
			os.Exit(3)
		}
		var rp struct {
			Case json.RawMessage `json:"case"`
		}
		if err := json.Unmarshal(b, &rp); err != nil || len(rp.Case) == 0 {
			fmt.Fprintln(os.Stderr, "bad replay file")
			os.Exit(3)
		}
		cases = []json.RawMessage{rp.Case}
		env.Shard, env.NShards = 0, 1
	} else {
		cases = part.gen(env)
	}
	var firstCase any
	for i, c := range cases {
		if i%env.NShards != env.Shard {
			continue
		}
		if *fCur != "" {
			WriteFile(*fCur, c)
		}
		var cv any
		_ = json.Unmarshal(c, &cv)
		if firstCase == nil {
			firstCase = cv
		}
		out.runConfirmed(string(c), cv, func(co *Out) { part.run(env, c, co) })
	}
	out.curCase = nil
	if len(out.Samples) == 0 && firstCase != nil {
		// every shard contributes at least one written-out case
		out.Samples = append(out.Samples, map[string]any{"part": part.Name, "case": firstCase})
	}
	if part.finish != nil {
		part.finish(env, out)
	}
	out.finalize()
	b, err := json.Marshal(out)
	if err != nil {
		fmt.Fprintln(os.Stderr, "marshal:", err)
		os.Exit(3)
	}
	WriteFile(*fOut, b)
	os.Exit(0)
}

// confirmedSigs: violation signatures that three executions in a row of some case of this process agreed on.
var confirmedSigs = map[string]bool{}

var anomalyCount, anomalyAbsorbed atomic.Int64

// FlagAnomaly marks the running case as disturbed by a spurious virtual-time
// jump; the framework re-executes it.
func FlagAnomaly(why ...string) {
	anomalyCount.Add(1)
	anomalyMu.Lock()
	if len(why) > 0 && len(anomalyWhy) < 8 {
		anomalyWhy = append(anomalyWhy, why[0])
	}
	anomalyMu.Unlock()
}

var (
	anomalyMu  sync.Mutex
	anomalyWhy []string
)

// runConfirmed executes one unit of work (a case, or a smaller unit inside a case) under the re-execution protocol.
//
// The unit is re-executed (a) when a time anomaly was flagged during it (virtual time moved where no wait was
// scripted) and (b), in the virtual-clock flavour, when it produced a violation whose signature has not been
// confirmed in this process yet. After a flagged anomaly the re-executions wait longer for the network before the
// virtual clock may jump (5 ms, then 20 ms of real time per jump instead of 0.3 ms): an effect of late delivery of
// loopback packets on a loaded machine does not repeat then, an effect of the code under test does. A violation is
// reported when three executions in a row show the same signatures; a unit that stays anomalous without that is
// inconclusive and its observations are discarded.
func (out *Out) runConfirmed(label string, cv any, run func(co *Out)) {
	var prevSigs []string
	sameSigs := true
	everFlagged := false
	absorbed0 := anomalyCount.Load()
	defer func() {
		// anomalies flagged inside this unit have been dealt with here: an enclosing unit does not see them
		anomalyAbsorbed.Add(anomalyCount.Load() - absorbed0)
		SetPollDelay(DefaultPollDelay)
	}()
	for attempt := 1; ; attempt++ {
		switch {
		case !everFlagged:
			SetPollDelay(DefaultPollDelay)
		case attempt == 2:
			SetPollDelay(5e6)
		default:
			SetPollDelay(20e6)
		}
		co := newOut()
		co.curCase = cv
		co.noConfirm = out.noConfirm
		co.Samples = append(co.Samples, out.Samples...)
		a0 := anomalyCount.Load() - anomalyAbsorbed.Load()
		run(co)
		flagged := anomalyCount.Load()-anomalyAbsorbed.Load() != a0
		everFlagged = everFlagged || flagged
		var sigs []string
		unconfirmed := false
		for k := range co.ViolCount {
			sigs = append(sigs, k)
			if IsSim && !out.noConfirm && !confirmedSigs[k] {
				unconfirmed = true
			}
		}
		sort.Strings(sigs)
		if !flagged && !unconfirmed {
			if attempt > 1 && len(prevSigs) > 0 && len(sigs) == 0 {
				out.Anomalies++
				out.Notes = append(out.Notes, fmt.Sprintf("%s: violation %v of an earlier execution did not repeat when the unit was re-executed: discarded as an effect of the virtual clock", trunc(label, 200), prevSigs))
			}
			out.merge(co)
			return
		}
		if flagged {
			out.Anomalies++
		}
		if attempt > 1 && strings.Join(sigs, "\x00") != strings.Join(prevSigs, "\x00") {
			sameSigs = false
		}
		prevSigs = sigs
		if attempt >= 3 {
			anomalyMu.Lock()
			why := fmt.Sprint(anomalyWhy)
			anomalyWhy = nil
			anomalyMu.Unlock()
			if sameSigs && len(sigs) > 0 {
				// the same violation on every execution is not an accident of the virtual clock
				for _, k := range sigs {
					confirmedSigs[k] = true
				}
				if flagged {
					co.Notes = append(co.Notes, fmt.Sprintf("%s: virtual time moved unexpectedly on all %d attempts with identical violations (%s)", trunc(label, 200), attempt, why))
				}
				out.merge(co)
			} else {
				out.Inconclusive = append(out.Inconclusive, fmt.Sprintf("%s: %d executions disagree (time anomaly flagged: %v; signatures of the last one: %v), observations discarded (%s)", trunc(label, 300), attempt, flagged, sigs, why))
			}
			return
		}
	}
}

// Unit runs a part of a case (one history of many, one exchange sequence) under the same re-execution protocol as a
// whole case, so that an anomaly or an unconfirmed violation re-executes only that part.
func (o *Out) Unit(label string, run func(o *Out)) {
	o.runConfirmed(label, o.curCase, run)
}

func trunc(s string, n int) string {
	if len(s) > n {
		return s[:n] + "..."
	}
	return s
}

func (o *Out) merge(c *Out) {
	o.Evaluations += c.Evaluations
	for k, v := range c.Observed {
		o.Observed[k] += v
	}
	o.Samples = c.Samples
	if len(o.Samples) > o.maxSamples {
		o.Samples = o.Samples[:o.maxSamples]
	}
	for _, v := range c.Violations {
		if len(o.Violations) < 60 && o.ViolCount[v.Sig] < 2 {
			o.Violations = append(o.Violations, v)
		}
		o.ViolCount[v.Sig]++
	}
	for k, n := range c.ViolCount {
		// counts beyond the recorded witnesses
		rec := int64(0)
		for _, v := range c.Violations {
			if v.Sig == k {
				rec++
			}
		}
		o.ViolCount[k] += n - rec
	}
	o.Inconclusive = append(o.Inconclusive, c.Inconclusive...)
	if len(o.Inconclusive) > 50 {
		o.Inconclusive = o.Inconclusive[:50]
	}
	o.DistinctN += c.DistinctN
	for _, r := range c.Require {
		o.Need(r)
	}
	for _, n := range c.Notes {
		o.Note("%s", n)
	}
	for h := range c.hashes {
		o.hashes[h] = struct{}{}
	}
	if c.Exhaustive {
		o.Exhaustive = true
	}
}

func (o *Out) finalize() {
	hs := make([]string, 0, len(o.hashes))
	for h := range o.hashes {
		hs = append(hs, strconv.FormatUint(h, 16))
	}
	sort.Strings(hs)
	if *fOut != "" {
		WriteFile(*fOut+".hashes", []byte(strings.Join(hs, "\n")))
	}
}

// WriteFile writes a file, exiting on error (infrastructure failure).
func WriteFile(path string, b []byte) {
	if path == "" {
		os.Stdout.Write(b)
		return
	}
	if err := os.WriteFile(path, b, 0o644); err != nil {
		fmt.Fprintln(os.Stderr, "write:", err)
		os.Exit(3)
	}
}

// Goroutines returns the current number of goroutines.
func Goroutines() int { return runtime.NumGoroutine() }

// GoroutineSigs returns the multiset of live goroutines keyed by "top function <- created by function".
func GoroutineSigs() map[string]int {
	buf := make([]byte, 1<<20)
	for {
		n := runtime.Stack(buf, true)
		if n < len(buf) {
			buf = buf[:n]
			break
		}
		buf = make([]byte, 2*len(buf))
	}
	out := map[string]int{}
	for _, g := range strings.Split(string(buf), "\n\n") {
		lines := strings.Split(strings.TrimSpace(g), "\n")
		if len(lines) < 2 || !strings.HasPrefix(lines[0], "goroutine ") {
			continue
		}
		fn := func(l string) string {
			l = strings.TrimSpace(l)
			if i := strings.LastIndex(l, "("); i > 0 {
				l = l[:i]
			}
			return l
		}
		// the first frames outside the runtime say what the goroutine is waiting in
		var frames []string
		created := ""
		for i := 1; i < len(lines); i += 2 {
			l := lines[i]
			if strings.HasPrefix(l, "created by ") {
				created = strings.TrimPrefix(l, "created by ")
				if j := strings.Index(created, " in goroutine"); j > 0 {
					created = created[:j]
				}
				break
			}
			f := fn(l)
			if strings.HasPrefix(f, "runtime.") || strings.HasPrefix(f, "internal/") || strings.HasPrefix(f, "sync.") || strings.HasPrefix(f, "time.") {
				continue
			}
			if len(frames) < 3 {
				frames = append(frames, f)
			}
		}
		out[strings.Join(frames, " < ")+" <- "+created]++
	}
	return out
}

// GoroutineDiff lists what is in after beyond before.
func GoroutineDiff(before, after map[string]int) []string {
	var d []string
	for k, n := range after {
		if n > before[k] {
			d = append(d, fmt.Sprintf("+%d %s", n-before[k], k))
		}
	}
	sort.Strings(d)
	return d
}

// Since returns virtual (SIM) or monotonic time since t.
func Since(t time.Time) time.Duration { return time.Since(t) }

// J renders v as compact JSON for signatures and samples.
func J(v any) string { b, _ := json.Marshal(v); return string(b) }

// Settle waits until the system under test has finished the bookkeeping that
// follows a response the client has already received (metrics, breaker and
// health updates happen after the last byte is written). Under the virtual
// clock a 1 ns sleep returns only when every other goroutine is blocked.
func Settle() {
	if IsSim {
		time.Sleep(time.Nanosecond)
		return
	}
	time.Sleep(3 * time.Millisecond)
}

// Took reports whether a virtual duration is more than the nanosecond steps the harness itself inserts to wait
// for quiescence (Settle, scheduler steps). Every timer in the system under test is at least a millisecond, so a
// spurious jump of the virtual clock is always far above this threshold.
func Took(d time.Duration) bool { return d >= time.Microsecond }
