package verifh

import (
	"fmt"
	"os"
	"strings"
)

// PidListens reports whether the process pid holds a listening TCP socket on the given port
// (decided from /proc, so a foreign process that grabbed the same port is never mistaken for it).
func PidListens(pid, port int) bool {
	inodes := map[string]bool{}
	for _, f := range []string{"/proc/net/tcp", "/proc/net/tcp6"} {
		b, err := os.ReadFile(f)
		if err != nil {
			continue
		}
		for _, line := range strings.Split(string(b), "\n")[1:] {
			fs := strings.Fields(line)
			if len(fs) < 10 || fs[3] != "0A" { // LISTEN
				continue
			}
			i := strings.LastIndexByte(fs[1], ':')
			if i < 0 {
				continue
			}
			var p int
			fmt.Sscanf(fs[1][i+1:], "%X", &p)
			if p == port {
				inodes[fs[9]] = true
			}
		}
	}
	if len(inodes) == 0 {
		return false
	}
	ents, err := os.ReadDir(fmt.Sprintf("/proc/%d/fd", pid))
	if err != nil {
		return false
	}
	for _, e := range ents {
		l, err := os.Readlink(fmt.Sprintf("/proc/%d/fd/%s", pid, e.Name()))
		if err == nil && strings.HasPrefix(l, "socket:[") && inodes[strings.TrimSuffix(strings.TrimPrefix(l, "socket:["), "]")] {
			return true
		}
	}
	return false
}
