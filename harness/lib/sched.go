package verifh

import (
	"bytes"
	"fmt"
	"runtime"
	"strconv"
	"sync"
	"time"

	"github.com/0xReLogic/Helios/internal/vhook"
)

// The quiescence scheduler (SIM flavour only, GOMAXPROCS=1).
//
// Actors are goroutines that call Helios code; at every vhook.Yield they park
// on their own channel. The controller waits for quiescence by sleeping one
// virtual nanosecond (under the runtime's virtual clock a sleep returns only
// when every other goroutine is blocked), looks at which actors are parked,
// and releases one of them according to the schedule being explored.

type actor struct {
	id      int
	gid     uint64
	resume  chan struct{}
	parked  bool
	at      string
	done    bool
	adopted bool // a foreign goroutine adopted at a hook: it is "unfinished" only while parked
	panicV  any
}

// Sched runs one schedule.
type Sched struct {
	mu      sync.Mutex // async preemption exists even on one P
	actors  []*actor
	byGID   map[uint64]*actor
	Adopt   map[string]bool // hook points at which a foreign goroutine becomes an actor
	Only    map[string]bool // if non-nil, actors park only at these points
	Trace   []string        // actor@point in release order
	Choices []int           // index chosen at each step
	Options []int           // number of parked actors at each step
	Preempt []bool          // whether step i was a preemption
	last    *actor
	// MaxIdle is how much virtual time the controller lets pass, when no actor is
	// parked but some are unfinished, before it declares a deadlock (0 for
	// library-level exploration without I/O or timers).
	MaxIdle time.Duration
}

func curGID() uint64 {
	var buf [64]byte
	n := runtime.Stack(buf[:], false)
	// "goroutine 123 ["
	b := buf[:n]
	b = b[len("goroutine "):]
	i := bytes.IndexByte(b, ' ')
	id, _ := strconv.ParseUint(string(b[:i]), 10, 64)
	return id
}

// NewSched creates a scheduler and installs the hook.
func NewSched() *Sched {
	s := &Sched{byGID: map[uint64]*actor{}}
	vhook.Set(s.hook)
	return s
}

// Close removes the hook.
func (s *Sched) Close() { vhook.Set(nil) }

func (s *Sched) hook(point string) {
	gid := curGID()
	s.mu.Lock()
	a := s.byGID[gid]
	if a == nil {
		if !s.Adopt[point] {
			s.mu.Unlock()
			return
		}
		a = &actor{id: len(s.actors), gid: gid, resume: make(chan struct{}), adopted: true}
		s.actors = append(s.actors, a)
		s.byGID[gid] = a
	} else if s.Only != nil && !s.Only[point] && point != "start" {
		s.mu.Unlock()
		return
	}
	a.at = point
	a.parked = true
	s.mu.Unlock()
	<-a.resume
}

// Go starts an actor. fn runs in its own goroutine and first parks at "start".
func (s *Sched) Go(fn func()) int {
	s.mu.Lock()
	a := &actor{id: len(s.actors), resume: make(chan struct{})}
	s.actors = append(s.actors, a)
	s.mu.Unlock()
	started := make(chan struct{})
	go func() {
		s.mu.Lock()
		a.gid = curGID()
		s.byGID[a.gid] = a
		s.mu.Unlock()
		close(started)
		defer func() {
			r := recover()
			s.mu.Lock()
			if r != nil {
				a.panicV = r
			}
			a.done = true
			a.parked = false
			s.mu.Unlock()
		}()
		s.mu.Lock()
		a.at = "start"
		a.parked = true
		s.mu.Unlock()
		<-a.resume
		fn()
	}()
	<-started
	return a.id
}

// PanicOf returns the value actor i panicked with (nil if none).
func (s *Sched) PanicOf(i int) any {
	s.mu.Lock()
	defer s.mu.Unlock()
	return s.actors[i].panicV
}

// Result of one schedule.
type SchedResult struct {
	Deadlock bool
	Stuck    []string // unfinished actors at deadlock
	Steps    int
	Pruned   bool // preemption bound cut this schedule (its remaining choices defaulted)
}

// Run executes the schedule given by prefix (indices into the parked set in
// canonical order: the last-run actor first if parked, then by id); beyond the
// prefix index 0 is chosen. maxPreempt < 0 means unbounded.
func (s *Sched) Run(prefix []int, maxSteps int) SchedResult {
	var res SchedResult
	idle := time.Duration(0)
	for step := 0; ; {
		time.Sleep(time.Nanosecond) // quiescence
		var parked, unfinished []*actor
		s.mu.Lock()
		for _, a := range s.actors {
			if !a.done && (!a.adopted || a.parked) {
				unfinished = append(unfinished, a)
				if a.parked {
					parked = append(parked, a)
				}
			}
		}
		s.mu.Unlock()
		if len(unfinished) == 0 {
			res.Steps = step
			return res
		}
		if len(parked) == 0 {
			if idle < s.MaxIdle {
				time.Sleep(100 * time.Millisecond)
				idle += 100 * time.Millisecond
				continue
			}
			res.Deadlock = true
			for _, a := range unfinished {
				res.Stuck = append(res.Stuck, fmt.Sprintf("%d(after %s)", a.id, a.at))
			}
			res.Steps = step
			return res
		}
		idle = 0
		// canonical order
		if s.last != nil {
			for i, a := range parked {
				if a == s.last && i != 0 {
					copy(parked[1:i+1], parked[0:i])
					parked[0] = a
					break
				}
			}
		}
		lastParked := s.last != nil && parked[0] == s.last
		idx := 0
		if step < len(prefix) {
			idx = prefix[step]
		}
		if idx >= len(parked) {
			idx = len(parked) - 1
		}
		a := parked[idx]
		s.Choices = append(s.Choices, idx)
		s.Options = append(s.Options, len(parked))
		s.Preempt = append(s.Preempt, lastParked && idx != 0)
		s.Trace = append(s.Trace, fmt.Sprintf("%d@%s", a.id, a.at))
		s.last = a
		s.mu.Lock()
		a.parked = false
		s.mu.Unlock()
		a.resume <- struct{}{}
		step++
		if maxSteps > 0 && step > maxSteps {
			res.Steps = step
			res.Pruned = true
			// release everything so goroutines can finish
			s.Drain()
			return res
		}
	}
}

// Drain releases all actors repeatedly until they finish (used to clean up).
func (s *Sched) Drain() {
	vhook.Set(nil)
	for i := 0; i < 10000; i++ {
		time.Sleep(time.Nanosecond)
		any := false
		s.mu.Lock()
		var rel []*actor
		for _, a := range s.actors {
			if !a.done && a.parked {
				a.parked = false
				rel = append(rel, a)
				any = true
			}
		}
		s.mu.Unlock()
		for _, a := range rel {
			a.resume <- struct{}{}
		}
		if !any {
			return
		}
	}
}

// Explore enumerates schedules depth-first with re-execution from scratch.
// world builds a fresh world and registers actors on the scheduler it is
// given; after the run, check is called with the scheduler (trace) and result.
// maxPreempt bounds the number of preemptions per schedule (<0: unbounded);
// maxSchedules bounds the number of executions. Returns schedules executed,
// distinct traces and whether the bounded space was exhausted.
func Explore(world func(s *Sched) (check func(s *Sched, r SchedResult)), maxPreempt, maxSchedules, maxSteps int, maxIdle time.Duration) (n int, traces map[string]struct{}, complete bool) {
	traces = map[string]struct{}{}
	var prefix []int
	for {
		s := NewSched()
		s.MaxIdle = maxIdle
		check := world(s)
		r := s.Run(prefix, maxSteps)
		if r.Deadlock {
			// leave the wedged goroutines behind; remove the hook
			vhook.Set(nil)
		} else {
			s.Close()
		}
		if check != nil {
			check(s, r)
		}
		n++
		traces[fmt.Sprint(s.Trace)] = struct{}{}
		// next prefix: last position that can be incremented within the preemption bound
		ch, op, pre := s.Choices, s.Options, s.Preempt
		next := -1
		for i := len(ch) - 1; i >= 0; i-- {
			if ch[i]+1 >= op[i] {
				continue
			}
			if maxPreempt >= 0 {
				// preemptions in ch[:i] plus the new choice at i
				p := 0
				for k := 0; k < i; k++ {
					if pre[k] {
						p++
					}
				}
				// the alternative at i is a preemption iff the last actor was parked at step i,
				// which is exactly when choice 0 would have been "continue"; pre[i] tells that for idx!=0.
				// Determine lastParked(i): pre[i] || (ch[i]==0 && continuing possible). We recorded only pre;
				// recompute conservatively: treat any non-zero alternative as a preemption when i>0.
				if i > 0 {
					p++
				}
				if p > maxPreempt {
					continue
				}
			}
			next = i
			break
		}
		if next < 0 {
			return n, traces, true
		}
		prefix = append(append([]int(nil), ch[:next]...), ch[next]+1)
		if maxSchedules > 0 && n >= maxSchedules {
			return n, traces, false
		}
	}
}
