package verifh

import (
	"bufio"
	"bytes"
	"compress/gzip"
	"errors"
	"fmt"
	"io"
	"net"
	"strconv"
	"strings"
	"time"
)

// RawReq is a literal HTTP/1.1 request.
type RawReq struct {
	Method     string      `json:"method"`
	Target     string      `json:"target"`
	Headers    [][2]string `json:"headers"`
	BodyLen    int         `json:"body_len,omitempty"`
	BodySeed   int         `json:"body_seed,omitempty"`
	Chunked    bool        `json:"chunked,omitempty"` // send the body chunked in ChunkSize pieces
	ChunkSize  int         `json:"chunk_size,omitempty"`
	Trailers   [][2]string `json:"trailers,omitempty"`
	NoHost     bool        `json:"no_host,omitempty"`
	Host       string      `json:"host,omitempty"`
	AbortAfter int         `json:"abort_after,omitempty"`  // RST after sending this many body bytes (>0)
	StopAfter  int         `json:"stop_after,omitempty"`   // RST after reading this many response body bytes (>0)
	DeclaredCL int         `json:"declared_cl,omitempty"`  // declare this Content-Length instead of BodyLen
	TimeoutMs  int         `json:"timeout_ms,omitempty"`   // overall (virtual) deadline, default 120 s
	Compress   bool        `json:"compressible,omitempty"` // compressible request body
	Instant    bool        `json:"instant,omitempty"`      // no wait is scripted: a non-zero virtual duration is a time anomaly
}

// Mark says that N body bytes had been read At ns after the request was sent.
type Mark struct {
	N  int   `json:"n"`
	At int64 `json:"at_ns"`
}

// RawResp is the parsed raw response.
type RawResp struct {
	Err      string      `json:"err,omitempty"`
	Interim  []Interim   `json:"interim,omitempty"`
	Status   int         `json:"status"`
	Proto    string      `json:"proto,omitempty"`
	Headers  [][2]string `json:"headers,omitempty"`
	Body     []byte      `json:"-"`
	BodyLen  int         `json:"body_len"`
	BodyHash uint64      `json:"body_hash"`
	Trailers [][2]string `json:"trailers,omitempty"`
	Framing  string      `json:"framing,omitempty"` // none | cl | chunked | eof
	Marks    []Mark      `json:"-"`
	HeadAt   int64       `json:"head_at_ns"`
	DurNS    int64       `json:"dur_ns"`
	Complete bool        `json:"complete"` // body ended according to its framing
}

// Get returns all values of a header (case-insensitive).
func (r *RawResp) Get(name string) []string {
	var out []string
	for _, h := range r.Headers {
		if strings.EqualFold(h[0], name) {
			out = append(out, h[1])
		}
	}
	return out
}

// Get1 returns the first value of a header or "".
func (r *RawResp) Get1(name string) string {
	v := r.Get(name)
	if len(v) == 0 {
		return ""
	}
	return v[0]
}

// Has reports whether the header is present.
func (r *RawResp) Has(name string) bool { return len(r.Get(name)) > 0 }

// BuildRequest renders the request bytes: head and body separately.
func (rq RawReq) BuildRequest(hostport string) (head []byte, body []byte) {
	var b bytes.Buffer
	m := rq.Method
	if m == "" {
		m = "GET"
	}
	t := rq.Target
	if t == "" {
		t = "/"
	}
	fmt.Fprintf(&b, "%s %s HTTP/1.1\r\n", m, t)
	if !rq.NoHost {
		h := rq.Host
		if h == "" {
			h = hostport
		}
		fmt.Fprintf(&b, "Host: %s\r\n", h)
	}
	for _, h := range rq.Headers {
		fmt.Fprintf(&b, "%s: %s\r\n", h[0], h[1])
	}
	raw := GenBody(rq.BodySeed, 0, rq.BodyLen, rq.Compress)
	if rq.Chunked {
		b.WriteString("Transfer-Encoding: chunked\r\n")
		if len(rq.Trailers) > 0 {
			names := []string{}
			for _, t := range rq.Trailers {
				names = append(names, t[0])
			}
			fmt.Fprintf(&b, "Trailer: %s\r\n", strings.Join(names, ", "))
		}
		var cb bytes.Buffer
		cs := rq.ChunkSize
		if cs <= 0 {
			cs = 1 << 30
		}
		for off := 0; off < len(raw); off += cs {
			end := off + cs
			if end > len(raw) {
				end = len(raw)
			}
			fmt.Fprintf(&cb, "%x\r\n", end-off)
			cb.Write(raw[off:end])
			cb.WriteString("\r\n")
		}
		cb.WriteString("0\r\n")
		for _, t := range rq.Trailers {
			fmt.Fprintf(&cb, "%s: %s\r\n", t[0], t[1])
		}
		cb.WriteString("\r\n")
		body = cb.Bytes()
	} else {
		cl := rq.BodyLen
		if rq.DeclaredCL > 0 {
			cl = rq.DeclaredCL
		}
		if cl > 0 || m == "POST" || m == "PUT" || m == "PATCH" {
			fmt.Fprintf(&b, "Content-Length: %d\r\n", cl)
		}
		body = raw
	}
	b.WriteString("\r\n")
	return b.Bytes(), body
}

type stampConn struct {
	net.Conn
	start time.Time
	last  int64
}

func (s *stampConn) Read(p []byte) (int, error) {
	n, err := s.Conn.Read(p)
	if n > 0 {
		s.last = int64(time.Since(s.start))
	}
	return n, err
}

func rst(c net.Conn) {
	if tc, ok := c.(*net.TCPConn); ok {
		tc.SetLinger(0)
	}
	c.Close()
}

// Do performs one exchange on a fresh connection.
func Do(addr string, rq RawReq) *RawResp {
	res := &RawResp{}
	to := time.Duration(rq.TimeoutMs) * time.Millisecond
	if to == 0 {
		to = 120 * time.Second
	}
	d0 := time.Now()
	c, err := net.DialTimeout("tcp", addr, 10*time.Second)
	for i := 0; err != nil && strings.Contains(err.Error(), "cannot assign requested address") && i < 300; i++ {
		RealSleep(int64(200 * time.Millisecond)) // ephemeral ports exhausted: infrastructure back-off in real time
		d0 = time.Now()
		c, err = net.DialTimeout("tcp", addr, 10*time.Second)
	}
	if IsSim && Took(time.Since(d0)) {
		FlagAnomaly("dial took virtual time")
	}
	if err != nil {
		res.Err = "dial: " + err.Error()
		return res
	}
	start := time.Now()
	c.SetDeadline(start.Add(to))
	head, body := rq.BuildRequest(addr)
	defer func() { res.DurNS = int64(time.Since(start)) }()
	if _, err := c.Write(head); err != nil {
		res.Err = "write head: " + err.Error()
		c.Close()
		return res
	}
	if rq.AbortAfter > 0 && rq.AbortAfter < len(body) {
		c.Write(body[:rq.AbortAfter])
		// give the proxy a moment to start forwarding, then reset
		time.Sleep(10 * time.Millisecond)
		rst(c)
		res.Err = "client-abort-upload"
		return res
	}
	if len(body) > 0 {
		// write the body concurrently with reading (a proxy may answer early)
		go func() { c.Write(body) }()
	}
	sc := &stampConn{Conn: c, start: start}
	br := bufio.NewReaderSize(sc, 64<<10)
	err = readResponse(br, sc, rq, res)
	if err != nil {
		res.Err = err.Error()
	}
	switch {
	case res.Err == "client-abort-download":
		rst(c)
	case IsSim && res.Err == "" && res.Complete:
		// After a complete response the connection is dropped with RST so that no TIME_WAIT socket is left
		// behind (hundreds of thousands of exchanges would otherwise exhaust the ephemeral port range) - but
		// only once the server side is quiescent, so that the reset cannot cancel anything still in progress.
		dur := time.Since(start)
		Settle()
		start = time.Now().Add(-dur) // the settle step is not part of the exchange
		rst(c)
	default:
		c.Close()
	}
	res.BodyLen = len(res.Body)
	res.BodyHash = hashBytes(res.Body)
	if rq.Instant && IsSim && Took(time.Since(start)) {
		FlagAnomaly(fmt.Sprintf("instant exchange %s %s took %v", rq.Method, trunc40(rq.Target), time.Since(start))) // the script contains no wait
	}
	return res
}

func readHeaderBlock(br *bufio.Reader) ([][2]string, error) {
	var hs [][2]string
	for {
		line, err := br.ReadString('\n')
		if err != nil {
			return hs, fmt.Errorf("read header: %w", err)
		}
		line = strings.TrimRight(line, "\r\n")
		if line == "" {
			return hs, nil
		}
		i := strings.IndexByte(line, ':')
		if i < 0 {
			return hs, fmt.Errorf("malformed header line %q", line)
		}
		hs = append(hs, [2]string{line[:i], strings.TrimSpace(line[i+1:])})
	}
}

func readResponse(br *bufio.Reader, sc *stampConn, rq RawReq, res *RawResp) error {
	for {
		line, err := br.ReadString('\n')
		if err != nil {
			return fmt.Errorf("read status line: %w", err)
		}
		line = strings.TrimRight(line, "\r\n")
		parts := strings.SplitN(line, " ", 3)
		if len(parts) < 2 || !strings.HasPrefix(parts[0], "HTTP/") {
			return fmt.Errorf("malformed status line %q", line)
		}
		code, err := strconv.Atoi(parts[1])
		if err != nil {
			return fmt.Errorf("malformed status %q", line)
		}
		hs, err := readHeaderBlock(br)
		if err != nil {
			return err
		}
		if code >= 100 && code < 200 && code != 101 {
			res.Interim = append(res.Interim, Interim{Code: code, Headers: hs})
			continue
		}
		res.Status, res.Proto, res.Headers = code, parts[0], hs
		res.HeadAt = sc.last
		break
	}
	noBody := rq.Method == "HEAD" || res.Status == 204 || res.Status == 304 || res.Status == 101
	te := strings.ToLower(strings.Join(res.Get("Transfer-Encoding"), ","))
	cls := res.Get("Content-Length")
	mark := func() {
		res.Marks = append(res.Marks, Mark{N: len(res.Body), At: sc.last})
	}
	stop := func() bool { return rq.StopAfter > 0 && len(res.Body) >= rq.StopAfter }
	switch {
	case noBody:
		res.Framing = "none"
		res.Complete = true
		return nil
	case strings.Contains(te, "chunked"):
		res.Framing = "chunked"
		for {
			line, err := br.ReadString('\n')
			if err != nil {
				return fmt.Errorf("read chunk size: %w", err)
			}
			line = strings.TrimSpace(line)
			if i := strings.IndexByte(line, ';'); i >= 0 {
				line = line[:i]
			}
			n, err := strconv.ParseInt(line, 16, 64)
			if err != nil {
				return fmt.Errorf("malformed chunk size %q", line)
			}
			if n == 0 {
				tr, err := readHeaderBlock(br)
				res.Trailers = tr
				if err != nil {
					return err
				}
				res.Complete = true
				return nil
			}
			buf := make([]byte, n)
			got, err := io.ReadFull(br, buf)
			res.Body = append(res.Body, buf[:got]...)
			mark()
			if err != nil {
				return fmt.Errorf("read chunk: %w", err)
			}
			if _, err := br.Discard(2); err != nil {
				return fmt.Errorf("read chunk crlf: %w", err)
			}
			if stop() {
				return errors.New("client-abort-download")
			}
		}
	case len(cls) > 0:
		res.Framing = "cl"
		n, err := strconv.Atoi(cls[0])
		if err != nil {
			return fmt.Errorf("malformed content-length %q", cls[0])
		}
		buf := make([]byte, 32<<10)
		for len(res.Body) < n {
			want := n - len(res.Body)
			if want > len(buf) {
				want = len(buf)
			}
			got, err := br.Read(buf[:want])
			res.Body = append(res.Body, buf[:got]...)
			if got > 0 {
				mark()
			}
			if err != nil {
				return fmt.Errorf("read body (%d of %d): %w", len(res.Body), n, err)
			}
			if stop() {
				return errors.New("client-abort-download")
			}
		}
		res.Complete = true
		return nil
	default:
		res.Framing = "eof"
		buf := make([]byte, 32<<10)
		for {
			got, err := br.Read(buf)
			res.Body = append(res.Body, buf[:got]...)
			if got > 0 {
				mark()
			}
			if err == io.EOF {
				res.Complete = true
				return nil
			}
			if err != nil {
				return fmt.Errorf("read body to eof: %w", err)
			}
			if stop() {
				return errors.New("client-abort-download")
			}
		}
	}
}

// GzipBytes compresses p.
func GzipBytes(p []byte) []byte {
	var b bytes.Buffer
	zw := gzip.NewWriter(&b)
	zw.Write(p)
	zw.Close()
	return b.Bytes()
}

// Gunzip decompresses p.
func Gunzip(p []byte) ([]byte, error) {
	zr, err := gzip.NewReader(bytes.NewReader(p))
	if err != nil {
		return nil, err
	}
	defer zr.Close()
	return io.ReadAll(zr)
}

func trunc40(s string) string {
	if len(s) > 40 {
		return s[:40]
	}
	return s
}
