package verifh

import (
	"syscall"
	"unsafe"
)

// WallNS reads the real monotonic clock through a raw syscall, bypassing the
// runtime's (possibly virtual) clock. Used only for watchdogs and self-tests,
// never for verdicts.
func WallNS() int64 {
	var ts syscall.Timespec
	syscall.Syscall(syscall.SYS_CLOCK_GETTIME, 1 /* CLOCK_MONOTONIC */, uintptr(unsafe.Pointer(&ts)), 0)
	return ts.Sec*1e9 + ts.Nsec
}

// RealSleep blocks the calling thread for d of real time through a raw syscall
// (the runtime's timers may be virtual). Only for infrastructure back-off, never for verdicts.
func RealSleep(ns int64) {
	ts := syscall.Timespec{Sec: ns / 1e9, Nsec: ns % 1e9}
	syscall.Nanosleep(&ts, nil)
}
