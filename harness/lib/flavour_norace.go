//go:build !race

package verifh

// IsRace is true when built with the race detector.
const IsRace = false
