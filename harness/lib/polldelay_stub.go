//go:build !(faketime && verifoverlay)

package verifh

// SetPollDelay is a no-op without the patched runtime (see polldelay_overlay.go).
func SetPollDelay(ns int64) {}

// DefaultPollDelay is the wait in normal operation.
const DefaultPollDelay = 300000
