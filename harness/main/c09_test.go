package main

import (
	"fmt"
	"io"
	"net/http"
	"strings"
	"sync"
	"time"

	"github.com/0xReLogic/Helios/internal/config"
	"github.com/0xReLogic/Helios/internal/ratelimiter"
	vh "github.com/0xReLogic/Helios/internal/verifh"
)

// C09: token-bucket bound, isolation, fresh burst, refill after idling.

type c09Hist struct {
	Max     int    `json:"max"`
	Timing  string `json:"timing"` // fast: refill 10 s ; slow: refill 1800 s (hourly cleanup matters)
	Clients int    `json:"clients"`
	Prefix  string `json:"prefix"`
	Depth   int    `json:"depth"`
	Random  int    `json:"random,omitempty"`
}

// alphabet: digits 0..3 = request by that client; letters = advances
func c09Advances(tm string, max int) (r time.Duration, adv map[byte]time.Duration) {
	if tm == "fast" {
		r = 10 * time.Second
	} else {
		r = 1800 * time.Second
	}
	adv = map[byte]time.Duration{
		'a': r * 4 / 10,                                   // 0.4 r
		'b': r - 100*time.Millisecond,                     // just under one period
		'c': r + 100*time.Millisecond,                     // just over one period
		'd': r*5/2 + 50*time.Millisecond,                  // 2.5 r
		'e': time.Duration(max+2)*r + 70*time.Millisecond, // long enough to refill completely
	}
	return
}

type c09Ev struct {
	t      time.Duration
	client int
	ok     bool
}

// c09Lim is one real limiter shared by all histories of a case. Every leaked limiter keeps a
// cleanup goroutine alive for ever and the virtual clock's idle check walks all goroutines, so
// histories use fresh client keys on one limiter instead of a fresh limiter each; every play starts
// at the same offset from a cleanup tick (10 min grid from the limiter's creation) so that the
// original run and the isolation replays see the cleanup at identical relative times.
type c09Lim struct {
	rl   *ratelimiter.TokenBucketRateLimiter
	born time.Time
	n    int
}

func newC09Lim(max int, tm string) *c09Lim {
	r, _ := c09Advances(tm, max)
	return &c09Lim{rl: ratelimiter.NewTokenBucketRateLimiter(max, r), born: time.Now()}
}

// c09Play plays a history with fresh client keys. only>=0: requests of other clients are skipped (advances kept).
func c09Play(l *c09Lim, max int, tm string, seq string, only int) []c09Ev {
	_, adv := c09Advances(tm, max)
	// align to the cleanup grid: next multiple of 10 min + 1 s
	el := time.Since(l.born)
	grid := 10 * time.Minute
	time.Sleep((el/grid+1)*grid - el + time.Second)
	l.n++
	t0 := time.Now()
	var evs []c09Ev
	for i := 0; i < len(seq); i++ {
		ch := seq[i]
		if d, ok := adv[ch]; ok {
			time.Sleep(d)
			continue
		}
		cl, reps := int(ch-'0'), 1
		if ch == 'B' { // a burst of max+1 requests by client 0 at one instant
			cl, reps = 0, max+1
		}
		if only >= 0 && cl != only {
			continue
		}
		for q := 0; q < reps; q++ {
			ok := l.rl.Allow(fmt.Sprintf("p%d-10.0.0.%d", l.n, cl))
			evs = append(evs, c09Ev{time.Since(t0), cl, ok})
		}
	}
	return evs
}

func c09CheckHistory(l *c09Lim, c c09Hist, seq string, o *vh.Out) {
	r, _ := c09Advances(c.Timing, c.Max)
	evs := c09Play(l, c.Max, c.Timing, seq, -1)
	o.Obs("requests", int64(len(evs)))
	ctx := fmt.Sprintf("max_tokens=%d refill=%v history=%s", c.Max, r, seq)
	// (a) sliding windows, per client
	for cl := 0; cl < c.Clients; cl++ {
		var adm []time.Duration
		var mine []c09Ev
		for _, e := range evs {
			if e.client == cl {
				mine = append(mine, e)
				if e.ok {
					adm = append(adm, e.t)
				}
			}
		}
		for i := range adm {
			for j := i; j < len(adm); j++ {
				n := j - i + 1
				bound := c.Max + int((adm[j]-adm[i])/r) + 1
				if adm[j] == adm[i] {
					bound = c.Max
				}
				if n > bound {
					o.Viol("C09|window-bound|"+c.Timing, fmt.Sprintf("%s: client %d had %d requests admitted between +%v and +%v; the bound for that interval is %d", ctx, cl, n, adm[i], adm[j], bound), map[string]any{"history": seq})
					return
				}
			}
		}
		o.Obs("windows_checked", int64(len(adm)*(len(adm)+1)/2))
		// (c) a never-seen client gets a full burst: its first max requests are admitted if they come at one instant
		if len(mine) > 0 {
			k := 0
			for k < len(mine) && mine[k].t == mine[0].t {
				k++
			}
			want := k
			if want > c.Max {
				want = c.Max
			}
			for q := 0; q < want; q++ {
				if !mine[q].ok {
					o.Viol("C09|fresh-burst", fmt.Sprintf("%s: new client %d: request %d of its first burst was refused (max_tokens %d)", ctx, cl, q+1, c.Max), nil)
					return
				}
			}
			o.Obs("fresh_bursts_checked", 1)
		}
		// (d) after an idle gap of k*r+eps at least min(k,max) further requests are admitted
		for i := 1; i < len(mine); i++ {
			gap := mine[i].t - mine[i-1].t
			k := int(gap / r)
			if gap-time.Duration(k)*r < 10*time.Millisecond {
				k-- // not clearly more than k periods
			}
			if k < 1 {
				continue
			}
			if k > c.Max {
				k = c.Max
			}
			// count admits in the run of requests at the same instant as mine[i]
			run, ok := 0, 0
			for q := i; q < len(mine) && mine[q].t == mine[i].t; q++ {
				run++
				if mine[q].ok {
					ok++
				}
			}
			need := k
			if run < need {
				need = run
			}
			if ok < need {
				o.Viol("C09|refill-after-idle|"+c.Timing, fmt.Sprintf("%s: client %d idle for %v (%d refill periods), then %d requests at once: only %d admitted, at least %d expected", ctx, cl, gap, int(gap/r), run, ok, need), nil)
				return
			}
			o.Obs("idle_refills_checked", 1)
		}
		// (b) isolation: same decisions as when the client is alone (same offsets)
		if c.Clients > 1 && len(mine) > 0 {
			alone := c09Play(l, c.Max, c.Timing, seq, cl)
			if len(alone) != len(mine) {
				o.Inconcl("isolation replay length mismatch")
				return
			}
			for q := range mine {
				if alone[q].ok != mine[q].ok {
					o.Viol("C09|isolation|"+c.Timing, fmt.Sprintf("%s: client %d request #%d at +%v: admitted=%v with the other clients' traffic, admitted=%v without it", ctx, cl, q+1, mine[q].t, mine[q].ok, alone[q].ok), nil)
					return
				}
			}
			o.Obs("isolation_replays", 1)
		}
	}
}

func c09Alphabet(c c09Hist) string {
	a := ""
	for i := 0; i < c.Clients; i++ {
		a += string(rune('0' + i))
	}
	return a + "abcdeB"
}

func init() {
	vh.AddPart("C09", "histories", "sim", vh.Opts{Shards: 16, TimeoutS: 300, TimeoutSThorough: 3000},
		func(e *vh.Env) []c09Hist {
			var cs []c09Hist
			for max := 1; max <= 5; max++ {
				for _, tm := range []string{"fast", "slow"} {
					for clients := 1; clients <= 4; clients++ {
						depth := e.Pick(6, 7) - (clients-1)/2
						if tm == "slow" {
							depth -= 2 // long virtual times: every limiter's cleanup ticker fires
						}
						c := c09Hist{Max: max, Timing: tm, Clients: clients, Depth: depth}
						for _, ch := range c09Alphabet(c) {
							cc := c
							cc.Prefix = string(ch)
							cs = append(cs, cc)
						}
						cr := c
						cr.Depth = e.Pick(12, 16)
						cr.Random = e.Pick(40, 500)
						if tm == "slow" {
							cr.Random /= 4
						}
						cs = append(cs, cr)
					}
				}
			}
			return cs
		},
		func(e *vh.Env, c c09Hist, o *vh.Out) {
			o.Need("requests", "windows_checked", "fresh_bursts_checked", "idle_refills_checked", "isolation_replays")
			alpha := c09Alphabet(c)
			l := newC09Lim(c.Max, c.Timing)
			if c.Random > 0 {
				r := e.Rand("c09", c.Max, c.Timing, c.Clients)
				for i := 0; i < c.Random; i++ {
					b := make([]byte, c.Depth)
					for k := range b {
						// requests are more likely than advances
						if r.Intn(3) > 0 {
							b[k] = alpha[r.Intn(c.Clients)]
						} else {
							b[k] = alpha[c.Clients+r.Intn(6)]
						}
					}
					c09CheckHistory(l, c, string(b), o)
					o.Eval(1)
					o.Distinct(fmt.Sprintf("%v|%s", c, b))
				}
				return
			}
			buf := make([]byte, c.Depth)
			copy(buf, c.Prefix)
			n := int64(0)
			var rec func(i int)
			rec = func(i int) {
				if i == c.Depth {
					c09CheckHistory(l, c, string(buf), o)
					n++
					return
				}
				for k := 0; k < len(alpha); k++ {
					buf[i] = alpha[k]
					rec(i + 1)
				}
			}
			rec(len(c.Prefix))
			o.Eval(n)
			o.DistinctCount(n)
			if c.Max == 2 && c.Timing == "fast" && c.Clients == 2 && c.Prefix == "0" {
				o.Sample(map[string]any{"part": "histories", "case": c, "example_history": "00c0d1", "alphabet": "0-3 = request by that client; a=0.4r b=r-0.1s c=r+0.1s d=2.5r e=(max+2)r B=burst of max+1 requests by client 0"})
			}
		})

	// ---- concurrent spending: exact totals under real parallelism (time-free: refill one hour)
	type c09Conc struct {
		Max, G, Keys int
		Round        int `json:"round"`
	}
	vh.AddPart("C09", "concurrent", "race", vh.Opts{Procs: 16, TimeoutS: 300, TimeoutSThorough: 1500},
		func(e *vh.Env) []c09Conc {
			var cs []c09Conc
			for _, max := range []int{1, 2, 3, 5} {
				for _, g := range []int{2, 4, 16, 64} {
					for _, keys := range []int{1, 7} {
						for r := 0; r < e.Pick(3, 12); r++ {
							cs = append(cs, c09Conc{max, g, keys, r})
						}
					}
				}
			}
			return cs
		},
		func(e *vh.Env, c c09Conc, o *vh.Out) {
			o.Need("concurrent_trials")
			trials := e.Pick(50, 600)
			for tr := 0; tr < trials; tr++ {
				rl := ratelimiter.NewTokenBucketRateLimiter(c.Max, time.Hour)
				admitted := make([][]int, c.G)
				var wg sync.WaitGroup
				start := make(chan struct{})
				per := c.Max + 2
				for g := 0; g < c.G; g++ {
					g := g
					admitted[g] = make([]int, c.Keys)
					wg.Add(1)
					go func() {
						defer wg.Done()
						<-start
						for i := 0; i < per; i++ {
							for k := 0; k < c.Keys; k++ {
								if rl.Allow(fmt.Sprintf("k%d-%d", tr, k)) {
									admitted[g][k]++
								}
							}
						}
					}()
				}
				close(start)
				wg.Wait()
				for k := 0; k < c.Keys; k++ {
					tot := 0
					for g := range admitted {
						tot += admitted[g][k]
					}
					if tot != c.Max {
						o.Viol("C09|concurrent-total", fmt.Sprintf("max_tokens=%d refill=1h: %d goroutines x %d requests for one new client at once: %d admitted, exactly %d expected", c.Max, c.G, per, tot, c.Max), nil)
						return
					}
				}
				o.Obs("concurrent_trials", 1)
			}
			o.Eval(int64(trials))
			o.Distinct(fmt.Sprintf("%v", c))
			if c.Max == 2 && c.G == 16 && c.Keys == 1 && c.Round == 0 {
				o.Sample(map[string]any{"part": "concurrent", "case": c, "trials": trials, "each": "G goroutines x (max+2) requests on a never-seen key; total admitted must equal max"})
			}
		})

	// ---- interleavings at the limiter's hook points
	type c09Sched struct {
		Kind   string `json:"kind"` // create: concurrent first requests ; cleanup: a request inside cleanup's delete window
		Max    int    `json:"max"`
		Actors int    `json:"actors"`
	}
	vh.AddPart("C09", "schedules", "sim", vh.Opts{NoConfirm: true, Shards: 12, TimeoutS: 300},
		func(e *vh.Env) []c09Sched {
			var cs []c09Sched
			for _, max := range []int{1, 2, 3} {
				cs = append(cs, c09Sched{"create", max, 2}, c09Sched{"create", max, 3}, c09Sched{"cleanup", max, 1}, c09Sched{"cleanup", max, 2})
			}
			return cs
		},
		func(e *vh.Env, c c09Sched, o *vh.Out) {
			o.Need("schedules")
			world := func(s *vh.Sched) func(*vh.Sched, vh.SchedResult) {
				admitted := 0
				var rl *ratelimiter.TokenBucketRateLimiter
				per := c.Max + 1
				if c.Kind == "create" {
					rl = ratelimiter.NewTokenBucketRateLimiter(c.Max, time.Hour)
					for a := 0; a < c.Actors; a++ {
						s.Go(func() {
							for i := 0; i < per; i++ {
								if rl.Allow("new-client") {
									admitted++
								}
							}
						})
					}
				} else {
					// refill 20 min, so a bucket idle for > 1 h is full again and the cleanup may drop it
					rl = ratelimiter.NewTokenBucketRateLimiter(c.Max, 20*time.Minute)
					for i := 0; i < c.Max; i++ {
						rl.Allow("idle-client")
					}
					s.Adopt = map[string]bool{"rl.cleanup.delete": true}
					s.Only = map[string]bool{"rl.cleanup.delete": true, "rl.allow.lock": true, "rl.bucket.miss": true}
					// 70 minutes later the cleanup goroutine (tick at 70 min) parks at the hook, between its decision and the Delete
					time.Sleep(70*time.Minute + time.Second)
					for a := 0; a < c.Actors; a++ {
						s.Go(func() {
							for i := 0; i < per; i++ {
								if rl.Allow("idle-client") {
									admitted++
								}
							}
						})
					}
				}
				return func(s *vh.Sched, r vh.SchedResult) {
					o.Obs("schedules", 1)
					if r.Deadlock {
						o.Viol("C09|sched|deadlock", fmt.Sprintf("%v: stuck %v", c, r.Stuck), map[string]any{"trace": s.Trace, "prefix": s.Choices})
						return
					}
					// all requests of this phase happen at one virtual instant: at most max may be admitted
					if admitted > c.Max {
						o.Viol("C09|sched|burst-exceeded|"+c.Kind, fmt.Sprintf("%s max_tokens=%d: %d requests admitted at one instant; trace %v", c.Kind, c.Max, admitted, s.Trace), map[string]any{"trace": s.Trace, "prefix": s.Choices})
					} else if admitted < c.Max && c.Kind == "create" {
						o.Viol("C09|sched|burst-short|"+c.Kind, fmt.Sprintf("%s max_tokens=%d: only %d of the first burst admitted; trace %v", c.Kind, c.Max, admitted, s.Trace), map[string]any{"trace": s.Trace, "prefix": s.Choices})
					}
				}
			}
			n, traces, _ := vh.Explore(world, -1, e.Pick(250, 2000), 300, 0)
			o.Eval(int64(n))
			for t := range traces {
				o.Distinct(fmt.Sprintf("%v|%s", c, t))
			}
			o.Obs("distinct_interleavings", int64(len(traces)))
			if c.Max == 1 && c.Actors == 2 {
				var one string
				for t := range traces {
					one = t
					break
				}
				o.Sample(map[string]any{"part": "schedules", "case": c, "interleavings": len(traces), "one_trace": one})
			}
		})

	// ---- system level: 429s against backend arrivals, arbitrary client-address headers
	type c09Sys struct {
		Strategy string `json:"strategy"`
		Max      int    `json:"max"`
		Idx      int    `json:"idx"`
	}
	vh.AddPart("C09", "system", "sim", vh.Opts{Shards: 16, TimeoutS: 300, TimeoutSThorough: 1500},
		func(e *vh.Env) []c09Sys {
			var cs []c09Sys
			for _, st := range allStrategies {
				for max := 1; max <= 4; max++ {
					for i := 0; i < e.Pick(3, 30); i++ {
						cs = append(cs, c09Sys{st, max, i})
					}
				}
			}
			return cs
		},
		func(e *vh.Env, c c09Sys, o *vh.Out) {
			o.Need("sys_requests", "sys_429", "sys_forwarded", "drained_clients_rechecked_after_reconfiguration", "sys_requests_on_reused_connection")
			bes := newBackends(2)
			defer closeBackends(bes)
			cfg := baseConfig(c.Strategy, bes)
			cfg.RateLimit = config.RateLimitConfig{Enabled: true, MaxTokens: c.Max, RefillRate: 10}
			sys, err := startSys(cfg, bes, true)
			if err != nil {
				o.Inconcl("startSys: %v", err)
				return
			}
			defer sys.Close()
			r := e.Rand("c09sys", c.Strategy, c.Max, c.Idx)
			keys := []string{"10.1.1.1", "2001:db8::9", "2001:db8::1", "2001:db8::2", "fe80::1%eth0", "10.1.1.11", "10.1.1.77", "::ffff:10.1.1.77", "2001:DB8::9", "not-an-ip", "a b", strings.Repeat("k", 200), "10.1.1.1 ", " 10.1.1.2", "x,y"}
			type cl struct {
				hdr  [][2]string
				attr string
			}
			var clients []cl
			for _, k := range keys {
				kt := strings.TrimSpace(k)
				if !strings.Contains(k, ",") {
					clients = append(clients, cl{[][2]string{{"X-Forwarded-For", k}}, kt}, cl{[][2]string{{"X-Forwarded-For", k + ", 9.9.9.9"}}, kt}, cl{[][2]string{{"X-Real-IP", k}}, kt},
						// proxy chains joined without a blank, with different tails: still the same client
						cl{[][2]string{{"X-Forwarded-For", k + ",9.9.9.9"}}, kt}, cl{[][2]string{{"X-Forwarded-For", k + ",8.8.8.8,7.7.7.7"}}, kt})
				}
			}
			clients = append(clients, cl{nil, "127.0.0.1"})
			// half of the cases send everything over one reused keep-alive connection: the client is who the headers
			// say, not who opened the connection
			var ka *http.Client
			if c.Idx%2 == 1 {
				tr := &http.Transport{MaxConnsPerHost: 1, MaxIdleConnsPerHost: 1, DisableCompression: true}
				ka = &http.Client{Transport: tr, Timeout: 30 * time.Second}
				defer tr.CloseIdleConnections()
			}
			doReq := func(target string, hdr [][2]string) (int, string) {
				if ka == nil {
					rs := vh.Do(sys.Addr, vh.RawReq{Method: "GET", Target: target, Headers: hdr, Instant: true})
					return rs.Status, string(rs.Body)
				}
				req, _ := http.NewRequest("GET", "http://"+sys.Addr+target, nil)
				for _, h := range hdr {
					req.Header.Add(h[0], h[1])
				}
				resp, err := ka.Do(req)
				if err != nil {
					return 0, err.Error()
				}
				b, _ := io.ReadAll(resp.Body)
				resp.Body.Close()
				o.Obs("sys_requests_on_reused_connection", 1)
				return resp.StatusCode, string(b)
			}
			respelled := map[string]bool{"10.1.1.77": true, "::ffff:10.1.1.77": true, "2001:DB8::9": true, "2001:db8::9": true}
			model := map[string]int{} // admitted so far per attributed client; no time passes below, so the allowance is max
			total429 := 0
			t0 := time.Now()
			for i := 0; i < 160; i++ {
				c1 := clients[r.Intn(len(clients))]
				before := bes[0].Count() + bes[1].Count()
				st, body := doReq(fmt.Sprintf("/rl/%d", i), c1.hdr)
				rs := struct {
					Status int
					Body   string
					Err    string
				}{st, body, ""}
				if st == 0 {
					rs.Err = body
				}
				arrived := bes[0].Count() + bes[1].Count() - before
				o.Obs("sys_requests", 1)
				ctx := fmt.Sprintf("%s max_tokens=%d client %q (headers %v) request #%d of that client", c.Strategy, c.Max, c1.attr, c1.hdr, model[c1.attr]+1)
				switch {
				case rs.Status == 429:
					total429++
					o.Obs("sys_429", 1)
					if arrived != 0 {
						o.Viol("C09|sys|forwarded-after-429", ctx+": answered 429 but the request reached a backend", nil)
						return
					}
					// two spellings of one address (IPv4-mapped form, upper case): whether they are one client or two is
					// the implementation's choice, so only the upper bound is asserted for them
					if respelled[c1.attr] {
						break
					}
					if model[c1.attr] < c.Max {
						o.Viol("C09|sys|refused-within-burst", fmt.Sprintf("%s: refused although only %d of %d burst requests were used (attribution or isolation error)", ctx, model[c1.attr], c.Max), nil)
						return
					}
				case rs.Status == 200:
					o.Obs("sys_forwarded", 1)
					if arrived != 1 {
						o.Viol("C09|sys|arrival-mismatch", fmt.Sprintf("%s: 200 but %d arrivals", ctx, arrived), nil)
						return
					}
					model[c1.attr]++
					if model[c1.attr] > c.Max {
						o.Viol("C09|sys|burst-exceeded", fmt.Sprintf("%s: admitted beyond max_tokens at one instant", ctx), nil)
						return
					}
				default:
					o.Viol("C09|sys|unexpected", fmt.Sprintf("%s: status %d %q", ctx, rs.Status, rs.Err), nil)
					return
				}
			}
			if vh.IsSim && vh.Took(time.Since(t0)) {
				vh.FlagAnomaly("c09 system burst took virtual time")
			}
			vh.Settle()
			if got := num(sys.metricsJSON(), "rate_limited_requests"); got != int64(total429) {
				o.Viol("C09|sys|metric", fmt.Sprintf("%s: %d requests were answered 429 but rate_limited_requests is %d", c.Strategy, total429, got), nil)
			}
			// run-time reconfiguration (strategy switch, backend added and removed) refills nobody's bucket
			other := allStrategies[(c.Idx+1)%5]
			if other == c.Strategy {
				other = allStrategies[(c.Idx+2)%5]
			}
			adm := sys.admin()
			adminDo(adm, "POST", "/v1/strategy", "127.0.0.1:1", nil, fmt.Sprintf(`{"strategy":%q}`, other))
			adminDo(adm, "POST", "/v1/backends/add", "127.0.0.1:1", nil, fmt.Sprintf(`{"name":"extra","address":%q,"weight":1}`, bes[0].URL))
			adminDo(adm, "POST", "/v1/backends/remove", "127.0.0.1:1", nil, `{"name":"extra"}`)
			checked := 0
			for _, c1 := range clients {
				if model[c1.attr] < c.Max || checked >= 6 {
					continue
				}
				checked++
				rs := vh.Do(sys.Addr, vh.RawReq{Method: "GET", Target: "/after-reconf", Headers: c1.hdr, Instant: true})
				if rs.Status != 429 {
					o.Viol("C09|sys|allowance-reset-by-reconfiguration", fmt.Sprintf("%s max_tokens=%d client %q: drained, then strategy switched to %s and a backend added and removed at the same instant: the next request got %d instead of 429", c.Strategy, c.Max, c1.attr, other, rs.Status), nil)
					return
				}
				total429++
				o.Obs("drained_clients_rechecked_after_reconfiguration", 1)
			}
			// after (max+2) refill periods everybody has a full burst again
			time.Sleep(time.Duration(c.Max+2)*10*time.Second + time.Second)
			c1 := clients[0]
			for q := 0; q < c.Max; q++ {
				rs := vh.Do(sys.Addr, vh.RawReq{Method: "GET", Target: "/again", Headers: c1.hdr, Instant: true})
				if rs.Status != 200 {
					o.Viol("C09|sys|no-refill", fmt.Sprintf("%s max_tokens=%d: after %d refill periods request %d got %d", c.Strategy, c.Max, c.Max+2, q+1, rs.Status), nil)
					return
				}
			}
			o.Eval(1)
			o.Distinct(vh.J(c))
			if c.Idx == 0 && c.Max == 2 && c.Strategy == "round_robin" {
				o.Sample(map[string]any{"part": "system", "case": c, "clients": len(clients), "requests": 60})
			}
		})
}
