package main

import (
	"fmt"
	"strings"
	"sync"
	"time"

	vh "github.com/0xReLogic/Helios/internal/verifh"
)

// C03: no backend or client fault can crash, wedge or permanently degrade the proxy.

type c03Case struct {
	Strategy   string     `json:"strategy"`
	Feat       featureCfg `json:"features"`
	Seq        []string   `json:"seq"`
	Concurrent int        `json:"concurrent"` // 0: sequential; n: the multiset issued by n clients at once
}

var c03Features = []featureCfg{
	{},
	{Breaker: true, Limiter: true, Active: true, Passive: true, Chain: "full"},
	{Breaker: true, Passive: true, Chain: "logging"},
	{Limiter: true, Active: true},
	{Breaker: true},
	{Passive: true},
	{Active: true, Passive: true, Chain: "full"},
	{Breaker: true, Active: true, Chain: "logging"},
	{Limiter: true, Passive: true, Chain: "full"},
	{Breaker: true, Limiter: true},
	{Chain: "full"},
	{Breaker: true, Limiter: true, Active: true, Passive: true},
}

// c03Bound is the latest end of a request of the given kind under faultConfig's timeouts (backend dial 1 s, backend
// read 2 s, backend idle 9 s, server read 5 s, server write 6 s), with one second of slack: the timeout that is meant
// to end the request decides, not the largest one configured.
func c03Bound(kind string) time.Duration {
	switch kind {
	case "hang":
		return 3 * time.Second // backend_read
	case "stall", "stall-up", "stall-upg":
		return 7 * time.Second // server write timeout
	case "slow":
		return 4 * time.Second // the 3 s drip itself
	case "refuse":
		return 2 * time.Second // backend_dial
	}
	return time.Second // answered or cut at once: reset, short, garb, f5, ok
}

func goroutinesSettled() (int, map[string]int) {
	min := 1 << 30
	var sigs map[string]int
	for i := 0; i < 3; i++ {
		vh.Settle()
		if n := vh.Goroutines(); n < min {
			min = n
			sigs = vh.GoroutineSigs()
		}
		time.Sleep(1300 * time.Millisecond)
	}
	return min, sigs
}

func c03Run(e *vh.Env, c c03Case, o *vh.Out) {
	bes := newBackends(2)
	defer closeBackends(bes)
	cfg := faultConfig(c.Strategy, bes, c.Feat)
	sys, err := startSys(cfg, bes, true)
	if err != nil {
		o.Inconcl("startSys: %v", err)
		return
	}
	defer sys.Close()
	ctx := fmt.Sprintf("%s [%s] seq=%v concurrent=%d", c.Strategy, c.Feat, c.Seq, c.Concurrent)
	sigc := strings.Join(c.Seq, ",")
	if len(c.Seq) > 2 {
		sigc = strings.Join(c.Seq[len(c.Seq)-2:], ",")
	}
	// warm-up and baseline
	if r := doFault(sys, "ok", nil); r.Status != 200 {
		// nothing is scripted to fail here: the virtual clock moved under a healthy exchange; the case is re-executed
		vh.FlagAnomaly(fmt.Sprintf("c03 warm-up request failed: %+v", r))
		return
	}
	time.Sleep(130 * time.Second)
	base, baseSigs := goroutinesSettled()
	do := func(kind string) bool {
		if kind == "w" { // 31 s pass (longer than the breaker timeout and the unhealthy window)
			time.Sleep(31 * time.Second)
			return true
		}
		if kind == "storm" {
			for k := 0; k < 8; k++ {
				r := doFault(sys, "f5", nil)
				o.Obs("fault_requests", 1)
				if r.Dur > c03Bound("f5") {
					o.Viol("C03|request-too-long|storm", fmt.Sprintf("%s: request %d of the 5xx storm ended only after %v", ctx, k+1, r.Dur), r)
					return false
				}
				if r.Status == 0 && r.Err == "" {
					o.Viol("C03|no-outcome|storm", fmt.Sprintf("%s: request %d of the 5xx storm had no outcome", ctx, k+1), r)
					return false
				}
			}
			o.Obs("fault_storm", 1)
			return true
		}
		r := doFault(sys, kind, nil)
		o.Obs("fault_requests", 1)
		o.Obs("fault_"+kind, 1)
		if kind != "cup" && kind != "cdown" && r.Dur > c03Bound(kind) {
			o.Viol("C03|request-too-long|"+kind, fmt.Sprintf("%s: the %s request ended only after %v, the bound for this kind is %v (configured timeouts: backend dial 1 s, backend read 2 s, backend idle 9 s, server read 5 s, server write 6 s)", ctx, kind, r.Dur, c03Bound(kind)), r)
			return false
		}
		if r.Status == 0 && r.Err == "" {
			o.Viol("C03|no-outcome|"+kind, fmt.Sprintf("%s: the %s request had no outcome", ctx, kind), r)
			return false
		}
		if (kind == "short" || kind == "short-chunked" || kind == "reset") && r.Status == 200 && r.Complete && r.Err == "" {
			// the backend died in the middle of the body: that must not look like a complete response
			o.Viol("C03|truncation-hidden|"+kind, fmt.Sprintf("%s: the backend cut the body short (%s) but the client received a response that looks complete", ctx, kind), r)
			return false
		}
		return true
	}
	if c.Concurrent == 0 {
		for _, k := range c.Seq {
			if !do(k) {
				return
			}
		}
	} else {
		var wg sync.WaitGroup
		okAll := true
		var mu sync.Mutex
		for cl := 0; cl < c.Concurrent; cl++ {
			cl := cl
			wg.Add(1)
			go func() {
				defer wg.Done()
				for i := range c.Seq {
					k := c.Seq[(i+cl)%len(c.Seq)]
					if k == "refuse" {
						continue // takes the listeners down for everybody: issued once, below
					}
					if !do(k) {
						mu.Lock()
						okAll = false
						mu.Unlock()
					}
				}
			}()
		}
		wg.Wait()
		for _, k := range c.Seq {
			if k == "refuse" {
				do(k)
			}
		}
		if !okAll {
			return
		}
	}
	// faults have stopped: wait longer than every timeout, window and breaker timeout
	time.Sleep(70 * time.Second)
	t0 := time.Now()
	r := doFault(sys, "ok", nil)
	d := time.Since(t0)
	if vh.IsSim && vh.Took(d) {
		// nothing may slow a healthy exchange down; a non-zero virtual duration that does not repeat is a time anomaly
		vh.FlagAnomaly(fmt.Sprintf("c03 probe took %v", d))
	}
	if r.Status != 200 || !r.Complete {
		o.Viol("C03|probe-failed|"+sigc, fmt.Sprintf("%s: 70 s after the faults stopped a request to a healthy backend got status %d err=%q body=%q", ctx, r.Status, r.Err, r.Body), r)
		return
	}
	o.Obs("probes_ok", 1)
	time.Sleep(130 * time.Second)
	now, nowSigs := goroutinesSettled()
	for _, b := range bes {
		if n := b.Inflight(); n != 0 {
			o.Viol("C03|backend-request-stuck|"+sigc, fmt.Sprintf("%s: %d request(s) are still open at backend %s 200 s after the faults stopped", ctx, n, b.Name), nil)
			return
		}
	}
	if now > base {
		// a count that is higher once may be a goroutine of the harness's own servers that ended late: the case is
		// re-executed, and only an excess that shows on every execution is reported (vh.FlagAnomaly)
		vh.FlagAnomaly(fmt.Sprintf("goroutines %d -> %d: %v", base, now, vh.GoroutineDiff(baseSigs, nowSigs)))
		o.Viol("C03|goroutine-leak|"+sigc, fmt.Sprintf("%s: %d goroutines before the faults, %d after everything has been idle for 130 s", ctx, base, now), map[string]any{"before": base, "after": now, "new_goroutines": vh.GoroutineDiff(baseSigs, nowSigs), "gone_goroutines": vh.GoroutineDiff(nowSigs, baseSigs)})
		return
	}
	o.Obs("goroutine_baselines_restored", 1)
}

func init() {
	vh.AddPart("C03", "fault-sequences", "sim", vh.Opts{Shards: 16, TimeoutS: 600, TimeoutSThorough: 3400},
		func(e *vh.Env) []c03Case {
			var cs []c03Case
			maxLen := e.Pick(2, 3)
			feats := c03Features[:e.Pick(4, 12)]
			strats := allStrategies
			var seqs [][]string
			var rec func(cur []string)
			rec = func(cur []string) {
				if len(cur) > 0 {
					seqs = append(seqs, append([]string(nil), cur...))
				}
				if len(cur) == maxLen {
					return
				}
				for _, k := range faultKinds {
					rec(append(cur, k))
				}
			}
			rec(nil)
			// a 5xx storm (eight failing answers in a row: trips the breaker and ejects every backend where those
			// features are on) alone, before and after each fault, and followed by a pause longer than every window
			seqs = append(seqs, []string{"storm"}, []string{"storm", "storm"})
			// a backend that goes silent in the middle of a body
			seqs = append(seqs, []string{"stall"}, []string{"stall", "stall"}, []string{"stall", "ok"}, []string{"stall-up"}, []string{"stall-up", "stall"}, []string{"stall-upg"}, []string{"ok", "stall-upg"}, []string{"short-chunked"}, []string{"short-chunked", "ok"})
			for _, k := range faultKinds {
				seqs = append(seqs, []string{"storm", k}, []string{k, "storm"}, []string{"storm", "w", k})
			}
			i := 0
			for _, sq := range seqs {
				fs := feats
				if sq[0] == "storm" || sq[len(sq)-1] == "storm" {
					// the storm ejects every backend only where no breaker stops it first: those feature sets come first
					fs = append([]featureCfg{{Passive: true}, {Passive: true, Active: true, Limiter: true, Chain: "full"}}, feats...)
				}
				for fi, f := range fs {
					// quick: two strategies per (sequence, features) chosen round-robin; thorough: all five
					n := e.Pick(2, 5)
					if sq[0] == "storm" && len(sq) <= 2 && fi < 2 {
						n = 5
					}
					for k := 0; k < n; k++ {
						cs = append(cs, c03Case{Strategy: strats[(i+k+fi)%5], Feat: f, Seq: sq})
					}
					i++
				}
			}
			// trip the breaker / eject, let the timeout pass, then the half-open trial itself is a fault
			for xi, x := range []string{"f5", "short", "reset", "refuse", "hang", "garb"} {
				for yi, y := range faultKinds {
					for _, f := range []featureCfg{{Breaker: true}, {Breaker: true, Passive: true, Chain: "logging"}, {Breaker: true, Limiter: true, Active: true, Passive: true, Chain: "full"}} {
						if !e.Thorough() && (xi+yi)%2 == 1 && f.Chain != "" {
							continue
						}
						cs = append(cs, c03Case{Strategy: strats[(xi+yi)%5], Feat: f, Seq: []string{x, x, "w", y}})
						cs = append(cs, c03Case{Strategy: strats[(xi+yi+1)%5], Feat: f, Seq: []string{x, x, "w", y, "w", y}})
					}
				}
			}
			// concurrent variants of the multisets
			for si, sq := range seqs {
				if len(sq) < 2 {
					continue
				}
				if !e.Thorough() && si%3 != 0 {
					continue
				}
				f := feats[si%len(feats)]
				cs = append(cs, c03Case{Strategy: strats[si%5], Feat: f, Seq: sq, Concurrent: 8})
			}
			return cs
		},
		func(e *vh.Env, c c03Case, o *vh.Out) {
			o.Need("fault_requests", "probes_ok", "goroutine_baselines_restored", "fault_hang", "fault_short", "fault_cdown", "fault_refuse", "fault_storm")
			c03Run(e, c, o)
			o.Eval(1)
			o.Distinct(vh.J(c))
			if len(c.Seq) == 2 && c.Seq[0] == "short" && c.Seq[1] == "hang" && c.Feat.Breaker && c.Feat.Chain == "full" {
				o.Sample(map[string]any{"part": "fault-sequences", "case": c, "alphabet": "refuse hang(before headers) reset(after headers) short(truncated body) garb(non-HTTP answer) f5 slow(dripped body) cup(client abort mid-upload) cdown(client abort mid-download) storm(eight 5xx in a row)"})
			}
		})

	// ---- concurrent requests at the moment an unhealthy window has elapsed (interleavings at the hook points)
	type c03Exp struct {
		Strategy string `json:"strategy"`
		Actors   int    `json:"actors"`
	}
	vh.AddPart("C03", "recovery-interleavings", "sim", vh.Opts{NoConfirm: true, Shards: 10, TimeoutS: 400},
		func(e *vh.Env) []c03Exp {
			var cs []c03Exp
			for _, st := range allStrategies {
				cs = append(cs, c03Exp{st, 2}, c03Exp{st, 3})
			}
			return cs
		},
		func(e *vh.Env, c c03Exp, o *vh.Out) {
			o.Need("schedules")
			bes := newBackends(2)
			defer closeBackends(bes)
			world := func(s *vh.Sched) func(*vh.Sched, vh.SchedResult) {
				sys, err := startSys(faultConfig(c.Strategy, bes, featureCfg{Passive: true}), bes, false)
				if err != nil {
					return nil
				}
				// both backends are ejected by failures and their windows elapse
				for _, b := range sys.LB.VerifBackends() {
					sys.LB.MarkBackendUnhealthy(b, 5*time.Second)
				}
				time.Sleep(6 * time.Second)
				s.Only = map[string]bool{"lb.expire.upgrade": true, "lb.expire.metrics": true, "lb.find.picked": true}
				codes := make([]int, c.Actors)
				for a := 0; a < c.Actors; a++ {
					a := a
					s.Go(func() { codes[a] = sys.call("GET", "/x", fmt.Sprintf("10.3.0.%d:1", a), nil, nil).Code })
				}
				return func(s *vh.Sched, r vh.SchedResult) {
					o.Obs("schedules", 1)
					if r.Deadlock {
						o.Viol("C03|wedged|window-expiry", fmt.Sprintf("%s: %d concurrent requests right after the unhealthy windows elapsed: requests blocked for ever %v; trace %v", c.Strategy, c.Actors, r.Stuck, s.Trace), map[string]any{"prefix": s.Choices, "trace": s.Trace})
						return // the wedged system is abandoned
					}
					defer sys.Close()
					for a, code := range codes {
						if code != 200 {
							o.Viol("C03|request-failed|window-expiry", fmt.Sprintf("%s: request %d got %d although both backends are healthy again; trace %v", c.Strategy, a, code, s.Trace), map[string]any{"prefix": s.Choices})
							return
						}
					}
					// afterwards everything still works and nothing blocks (the admin listing takes the backend locks)
					doneCh := make(chan bool, 1)
					go func() {
						_, err := listBackends(sys.admin())
						rec := sys.call("GET", "/after", "10.3.0.9:1", nil, nil)
						doneCh <- err == nil && rec.Code == 200
					}()
					select {
					case ok := <-doneCh:
						if !ok {
							o.Viol("C03|degraded|window-expiry", fmt.Sprintf("%s: follow-up request or admin listing failed; trace %v", c.Strategy, s.Trace), map[string]any{"prefix": s.Choices})
						}
					case <-time.After(30 * time.Second):
						o.Viol("C03|wedged|window-expiry", fmt.Sprintf("%s: after %d concurrent requests at window expiry the follow-up request / admin listing never returned; trace %v", c.Strategy, c.Actors, s.Trace), map[string]any{"prefix": s.Choices, "trace": s.Trace})
					}
				}
			}
			n, traces, _ := vh.Explore(world, -1, e.Pick(300, 3000), 300, 8*time.Second)
			o.Eval(int64(n))
			for t := range traces {
				o.Distinct(fmt.Sprintf("%v|%s", c, t))
			}
			o.Obs("distinct_interleavings", int64(len(traces)))
		})
}
