package main

import (
	"bytes"
	"fmt"
	"io"
	"math/rand"
	"net/http"
	"net/http/httptest"
	"net/url"
	"os"
	"runtime"
	"sort"
	"strings"
	"sync"
	"sync/atomic"
	"time"

	"github.com/0xReLogic/Helios/internal/circuitbreaker"
	"github.com/0xReLogic/Helios/internal/config"
	"github.com/0xReLogic/Helios/internal/loadbalancer"
	vh "github.com/0xReLogic/Helios/internal/verifh"
	"github.com/0xReLogic/Helios/internal/vhook"
)

// C12: data races (decided by the Go race detector: /verif/check parses the report files), panics and
// deadlocks under a concurrent mix of everything.

type c12Case struct {
	Strategy string     `json:"strategy"`
	Feat     featureCfg `json:"features"`
	Pool     bool       `json:"ws_pool"`
	Round    int        `json:"round"`
	G        int        `json:"goroutines"`
	Ops      int        `json:"ops_per_goroutine"`
}

// c12Stalled decides whether goroutines inside Helios are deadlocked: three goroutine dumps four seconds apart; a
// goroutine (same id) whose stack contains Helios code and that is parked on a mutex / rwmutex / waitgroup with a
// byte-identical stack in all three is stuck. It is called only after an operation has been in flight for 25 s
// (no operation of the mix legitimately takes that long: proxied requests carry a 15 s client timeout) or after
// 20 s without any progress. Returns the stuck goroutines' stacks ("" when there are none) and the last dump.
func c12Stalled() (string, string) {
	dump := func() map[string][2]string {
		buf := make([]byte, 16<<20)
		out := map[string][2]string{}
		for _, g := range strings.Split(string(buf[:runtime.Stack(buf, true)]), "\n\n") {
			i := strings.IndexByte(g, '\n')
			if i < 0 || !strings.HasPrefix(g, "goroutine ") {
				continue
			}
			head, body := g[:i], g[i+1:]
			f := strings.Fields(head)
			if len(f) < 3 {
				continue
			}
			state := head[strings.Index(head, "["):]
			if k := strings.IndexAny(state, ",]"); k > 0 {
				state = state[1:k]
			}
			out[f[1]] = [2]string{state, body}
		}
		return out
	}
	lockWait := func(state string) bool {
		return strings.HasPrefix(state, "sync.Mutex.Lock") || strings.HasPrefix(state, "sync.RWMutex") || strings.HasPrefix(state, "semacquire") || strings.HasPrefix(state, "sync.WaitGroup.Wait")
	}
	inHelios := func(body string) bool {
		return strings.Contains(body, "github.com/0xReLogic/Helios/internal/") && strings.Contains(strings.ReplaceAll(body, "Helios/internal/verifh", ""), "github.com/0xReLogic/Helios/internal/")
	}
	d1 := dump()
	time.Sleep(4 * time.Second)
	d2 := dump()
	time.Sleep(4 * time.Second)
	d3 := dump()
	var stuck []string
	for id, g := range d1 {
		if lockWait(g[0]) && inHelios(g[1]) && d2[id] == g && d3[id] == g {
			stuck = append(stuck, "goroutine "+id+" ["+g[0]+"]:\n"+g[1])
		}
	}
	sort.Strings(stuck)
	var all strings.Builder
	for id, g := range d3 {
		all.WriteString("goroutine " + id + " [" + g[0] + "]:\n" + g[1] + "\n\n")
	}
	return strings.Join(stuck, "\n\n"), all.String()
}

// c12Wedged: an earlier case of this process ended with deadlocked goroutines; the process is no basis for further verdicts.
var c12Wedged bool

func c12Run(e *vh.Env, c c12Case, o *vh.Out) {
	if c12Wedged {
		o.Inconcl("case %s skipped: an earlier case left deadlocked goroutines in this process", vh.J(c))
		return
	}
	bes := newBackends(3)
	defer closeBackends(bes)
	cfg := faultConfig(c.Strategy, bes, c.Feat)
	if c.Feat.Breaker {
		cfg.CircuitBreaker.TimeoutSeconds = 1
		cfg.CircuitBreaker.IntervalSeconds = 1
		if c.Round%2 == 1 {
			// several trial slots: requests compete for the last one while the breaker is half-open
			cfg.CircuitBreaker.SuccessThreshold, cfg.CircuitBreaker.MaxRequests = 2, 3
		}
	}
	if c.Feat.Passive {
		cfg.HealthChecks.Passive.UnhealthyTimeout = 1
	}
	if c.Feat.Active {
		cfg.HealthChecks.Active.Interval = 2
		cfg.HealthChecks.Active.Timeout = 1
	}
	if c.Feat.Limiter {
		cfg.RateLimit.MaxTokens = 50
	}
	if c.Pool {
		cfg.LoadBalancer.WebSocketPool = config.WebSocketPoolConfig{Enabled: true, MaxIdle: 4, MaxActive: 16, IdleTimeoutSeconds: 1}
	}
	cfg.Logging.RequestID.Enabled, cfg.Logging.Trace.Enabled = true, true
	cfg.Server.Timeouts.Write = 1
	sys, err := startSys(cfg, bes, true)
	if err != nil {
		o.Inconcl("startSys: %v", err)
		return
	}
	adm := sys.admin()
	// hook delays widen the windows between critical sections (none of the hooks is inside a lock)
	var hookSeed atomic.Uint64
	hookSeed.Store(uint64(e.Seed)*2654435761 + uint64(c.Round))
	vhook.Set(func(string) {
		x := hookSeed.Add(0x9E3779B97F4A7C15)
		x ^= x >> 29
		if x%7 == 0 {
			time.Sleep(time.Duration(x%200) * time.Microsecond)
		} else if x%7 == 1 {
			runtime.Gosched()
		}
	})
	defer vhook.Set(nil)
	var done atomic.Int64
	var opCount [9]atomic.Int64
	var clientTimeouts, slowOps atomic.Int64
	opStart := make([]atomic.Int64, c.G) // unix nanoseconds of the operation in flight (0: none)
	var panics sync.Map
	total := int64(c.G)
	var wg sync.WaitGroup
	client := &http.Client{Transport: &http.Transport{MaxIdleConnsPerHost: 32}, Timeout: 15 * time.Second}
	worker := func(g int) {
		defer wg.Done()
		defer done.Add(1)
		defer func() {
			if r := recover(); r != nil {
				buf := make([]byte, 4096)
				panics.Store(fmt.Sprint(r), string(buf[:runtime.Stack(buf, false)]))
			}
		}()
		r := rand.New(rand.NewSource(e.Seed*1000003 + int64(c.Round)*7919 + int64(g)))
		var mine []*fakeConn
		for i := 0; i < c.Ops; i++ {
			role := g % 9
			if r.Intn(5) == 0 {
				role = r.Intn(9)
			}
			opCount[role].Add(1)
			opStart[g].Store(time.Now().UnixNano())
			switch role {
			case 0, 1, 2: // proxied traffic through the real listener
				var sc vh.Script
				switch r.Intn(6) {
				case 0:
					sc = vh.Script{Status: 500}
					if r.Intn(5) == 0 {
						// an exchange that outlives the server's write timeout (1 s here): the deadline guard fires while the handler is busy
						sc = vh.Script{Status: 200, Framing: "chunked", Steps: []vh.Step{{Op: "write", N: 50}, {Op: "flush"}, {Op: "sleep", Ms: 1300}, {Op: "write", N: 50}}}
						slowOps.Add(1)
					}
				case 1:
					sc = vh.Script{Status: 200, Framing: "cl", Declared: 3000, Steps: []vh.Step{{Op: "write", N: 100}, {Op: "flush"}, {Op: "closeconn"}}}
				case 2:
					sc = vh.Script{Status: 404, Steps: []vh.Step{{Op: "write", N: 20}}}
				default:
					sc = vh.Script{Status: 200, Headers: [][2]string{{"Content-Type", "text/plain"}}, Steps: []vh.Step{{Op: "write", N: 300}}}
				}
				req, _ := http.NewRequest("POST", "http://"+sys.Addr+"/t", bytes.NewReader(make([]byte, 32)))
				if r.Intn(4) == 0 {
					// a chunked upload with a trailer (the trailer map is shared between server and transport goroutines)
					req.Trailer = http.Header{"X-Checksum": nil}
					req.Body = &trailerAtEOF{r: bytes.NewReader(make([]byte, 5000)), fill: func() { req.Trailer.Set("X-Checksum", "abc") }}
					req.ContentLength = -1
				}
				req.Header.Set(vh.ScriptHeader, sc.Encode())
				req.Header.Set("X-Forwarded-For", fmt.Sprintf("10.12.%d.%d", g, r.Intn(4)))
				req.Header.Set("Accept-Encoding", "gzip")
				if resp, err := client.Do(req); err == nil {
					io.Copy(io.Discard, resp.Body)
					resp.Body.Close()
				} else if ue, ok := err.(*url.Error); ok && ue.Timeout() {
					clientTimeouts.Add(1) // 15 s without an answer: the monitor below looks for goroutines stuck on a lock
				}
			case 3: // picking storms
				rq := httptest.NewRequest("GET", "/", nil)
				rq.Header.Set("X-Forwarded-For", fmt.Sprintf("10.12.9.%d", r.Intn(250)))
				for k := 0; k < 20; k++ {
					sys.LB.NextBackend(rq)
				}
			case 4: // admin writers
				name := fmt.Sprintf("x%d", r.Intn(4))
				switch r.Intn(4) {
				case 0:
					adminDo(adm, "POST", "/v1/backends/add", "127.0.0.1:1", nil, fmt.Sprintf(`{"name":%q,"address":%q,"weight":%d}`, name, bes[r.Intn(3)].URL, r.Intn(4)))
				case 1:
					adminDo(adm, "POST", "/v1/backends/remove", "127.0.0.1:1", nil, fmt.Sprintf(`{"name":%q}`, name))
				case 2:
					adminDo(adm, "POST", "/v1/strategy", "127.0.0.1:1", nil, fmt.Sprintf(`{"strategy":%q}`, allStrategies[r.Intn(5)]))
				default:
					listBackends(adm)
				}
			case 5: // readers
				switch r.Intn(3) {
				case 0:
					sys.metricsJSON()
				case 1:
					sys.healthJSON()
				default:
					listBackends(adm)
				}
			case 6: // health transitions through the exported API
				live := sys.LB.VerifBackends()
				if len(live) > 0 {
					b := live[r.Intn(len(live))]
					if r.Intn(2) == 0 {
						sys.LB.MarkBackendUnhealthy(b, time.Duration(r.Intn(3))*time.Millisecond)
					} else {
						sys.LB.IsBackendHealthy(b)
					}
				}
			case 8: // the periodic maintenance passes (every 10 min / 30 s in production) run now, amid the traffic
				if rl := sys.LB.VerifLimiter(); rl != nil {
					rl.VerifCleanup()
				}
				if p := sys.LB.VerifWSPool(); p != nil {
					p.VerifCleanup()
				}
				if r.Intn(3) == 0 {
					time.Sleep(time.Duration(r.Intn(300)) * time.Microsecond)
				}
			case 7: // websocket pool
				if p := sys.LB.VerifWSPool(); p != nil {
					bn := fmt.Sprintf("b%d", r.Intn(3))
					switch r.Intn(4) {
					case 0:
						p.Put(bn, &fakeConn{id: g*100000 + i})
					case 1:
						if cn := p.Get(bn); cn != nil {
							mine = append(mine, cn.(*fakeConn))
						}
					case 2:
						if len(mine) > 0 {
							p.Close(bn, mine[len(mine)-1])
							mine = mine[:len(mine)-1]
						}
					default:
						p.Stats(bn)
					}
				} else {
					sys.metricsJSON()
				}
			}
			opStart[g].Store(0)
		}
	}
	for g := 0; g < c.G; g++ {
		wg.Add(1)
		go worker(g)
	}
	// shutdown races the last operations
	stopAt := int64(c.G) - 3
	finished := make(chan struct{})
	go func() { wg.Wait(); close(finished) }()
	stopped := false
	lastProgress, lastDone := time.Now(), int64(-1)
	shutdownDone := make(chan struct{})
	stall, stallAll := "", ""
	analysedTimeouts, analyses := int64(0), 0
loop:
	for {
		select {
		case <-finished:
			break loop
		case <-time.After(50 * time.Millisecond):
		}
		d := done.Load()
		sum := int64(0)
		for i := range opCount {
			sum += opCount[i].Load()
		}
		if sum != lastDone {
			lastDone, lastProgress = sum, time.Now()
		}
		if !stopped && d >= stopAt {
			stopped = true
			go func() { callShutdown(sys.Srv, sys.LB, 3*time.Second); close(shutdownDone) }()
		}
		longest := time.Duration(0)
		for g := range opStart {
			if t0 := opStart[g].Load(); t0 != 0 {
				if d := time.Duration(time.Now().UnixNano() - t0); d > longest {
					longest = d
				}
			}
		}
		if ct := clientTimeouts.Load(); ct > analysedTimeouts && analyses < 3 {
			// a proxied request was not answered within the client's 15 s: look for stuck goroutines, carry on if there are none
			analysedTimeouts, analyses = ct, analyses+1
			if stuck, all := c12Stalled(); stuck != "" {
				stall, stallAll = stuck, all
				c12Wedged = true
				break loop
			}
		}
		if time.Since(lastProgress) > 20*time.Second || longest > 25*time.Second {
			stuck, all := c12Stalled()
			if stuck != "" {
				stall, stallAll = stuck, all
			} else {
				o.Inconcl("an operation has been in flight for %v (no progress for %v) but no goroutine inside Helios is parked on a lock (case %s)", longest, time.Since(lastProgress), vh.J(c))
			}
			c12Wedged = true
			break loop
		}
	}
	_ = total
	o.Eval(1)
	o.Distinct(vh.J(c))
	for i := range opCount {
		o.Obs(fmt.Sprintf("ops_role_%d", i), opCount[i].Load())
	}
	o.Obs("operations", lastDone)
	o.Obs("exchanges_outliving_the_write_timeout", slowOps.Load())
	if stall != "" {
		// keep the whole dump for the witness
		path := fmt.Sprintf("%s/stall-%d.txt", e.TmpDir, c.Round)
		os.WriteFile(path, []byte(stallAll), 0o644)
		o.Viol("C12|deadlock|"+c12StallFrame(stall), fmt.Sprintf("%s: an operation did not return and goroutines inside Helios stay parked on a lock with an unchanged stack over 8 s (%d workers unfinished)", vh.J(c), int64(c.G)-done.Load()), map[string]any{"stuck_goroutines": trunc(stall, 6000)})
		return
	}
	if !stopped {
		go func() { callShutdown(sys.Srv, sys.LB, 3*time.Second); close(shutdownDone) }()
	}
	// the shutdown (3 s timeout) has to come back; 30 s of real time is a generous bound after which the goroutines
	// are examined the same way as for a stalled operation
	select {
	case <-shutdownDone:
	case <-time.After(30 * time.Second):
		stuck, all := c12Stalled()
		c12Wedged = true
		if stuck != "" {
			path := fmt.Sprintf("%s/stall-%d.txt", e.TmpDir, c.Round)
			os.WriteFile(path, []byte(all), 0o644)
			o.Viol("C12|deadlock|"+c12StallFrame(stuck), fmt.Sprintf("%s: the graceful shutdown (timeout 3 s) had not returned after 30 s and goroutines inside Helios stay parked on a lock or wait group with an unchanged stack over 8 s", vh.J(c)), map[string]any{"stuck_goroutines": trunc(stuck, 6000)})
		} else {
			o.Inconcl("the graceful shutdown had not returned after 30 s but no goroutine inside Helios is parked on a lock (case %s)", vh.J(c))
		}
		return
	}
	panics.Range(func(k, v any) bool {
		o.Viol("C12|panic|"+c12StallFrame(v.(string)), fmt.Sprintf("%s: a worker panicked: %v", vh.J(c), k), map[string]any{"stack": v})
		return true
	})
	o.Obs("runs_completed", 1)
}

// c12StallFrame names the first Helios function found in a dump (for the signature).
func c12StallFrame(dump string) string {
	for _, line := range strings.Split(dump, "\n") {
		if strings.HasPrefix(line, "github.com/0xReLogic/Helios/internal/") && !strings.Contains(line, "verifh") {
			f := strings.TrimPrefix(line, "github.com/0xReLogic/Helios/")
			if i := strings.IndexByte(f, '('); i > 0 && !strings.HasPrefix(f[i:], "(*") {
				f = f[:i]
			}
			if i := strings.LastIndexByte(f, '('); i > 0 && strings.HasSuffix(strings.TrimSpace(f), ")") {
				f = f[:i]
			}
			return f
		}
	}
	return "?"
}

func init() {
	vh.AddPart("C12", "race-stress", "race", vh.Opts{Shards: 4, ShardsThorough: 4, Procs: 4, TimeoutS: 900, TimeoutSThorough: 3400},
		func(e *vh.Env) []c12Case {
			var cs []c12Case
			// quick: a covering selection of 24 feature/strategy combinations x 3 rounds; thorough: all 160 x 10 rounds
			var all []c12Case
			for si, st := range allStrategies {
				for m := 0; m < 32; m++ {
					f := featureCfg{Breaker: m&1 != 0, Limiter: m&2 != 0, Active: m&4 != 0, Passive: m&8 != 0}
					f.Chain = []string{"", "logging", "full"}[(m+si)%3]
					all = append(all, c12Case{Strategy: st, Feat: f, Pool: m&16 != 0})
				}
			}
			rounds := e.Pick(3, 10)
			for i, c := range all {
				if !e.Thorough() && (i*5+i/32)%7 != 0 {
					continue // quick: 23 of the 160 combinations, every strategy and every feature on and off
				}
				for k := 0; k < rounds; k++ {
					cc := c
					cc.Round, cc.G, cc.Ops = k, e.Pick(32, 64), e.Pick(40, 80)
					cs = append(cs, cc)
				}
			}
			return cs
		},
		func(e *vh.Env, c c12Case, o *vh.Out) {
			o.Need("operations", "runs_completed", "ops_role_0", "ops_role_4", "ops_role_5", "ops_role_6", "ops_role_8")
			c12Run(e, c, o)
			if c.Round == 0 && c.Strategy == "weighted_round_robin" && len(o.Samples) == 0 {
				o.Sample(map[string]any{"part": "race-stress", "case": c, "roles": "0-2 proxied traffic (200/404/500/aborted body) through the real listener; 3 NextBackend storms; 4 admin add/remove/strategy/list; 5 /metrics,/health,/v1/backends readers; 6 MarkBackendUnhealthy/IsBackendHealthy; 7 websocket pool; shutdown races the last operations; hook points sleep 0-200us at random"})
			}
		})

	// ---- deadlocks and panics decided on the deterministic scheduler (SIM): traffic x admin writes x health transitions
	type c12Sched struct {
		Strategy string `json:"strategy"`
		Kind     string `json:"kind"`
	}
	vh.AddPart("C12", "lock-interleavings", "sim", vh.Opts{NoConfirm: true, Shards: 15, TimeoutS: 500, TimeoutSThorough: 2500},
		func(e *vh.Env) []c12Sched {
			var cs []c12Sched
			for _, st := range allStrategies {
				for _, k := range []string{"traffic-vs-strategy", "traffic-vs-remove", "traffic-vs-eject", "expiry-vs-expiry", "breaker-trip-vs-metrics", "half-open-last-slot"} {
					cs = append(cs, c12Sched{st, k})
				}
			}
			return cs
		},
		func(e *vh.Env, c c12Sched, o *vh.Out) {
			o.Need("schedules")
			bes := newBackends(3)
			defer closeBackends(bes)
			world := func(s *vh.Sched) func(*vh.Sched, vh.SchedResult) {
				f := featureCfg{Passive: true}
				if c.Kind == "breaker-trip-vs-metrics" || c.Kind == "half-open-last-slot" {
					f.Breaker = true
				}
				cfg := faultConfig(c.Strategy, bes, f)
				if f.Breaker {
					cfg.CircuitBreaker.FailureThreshold = 1
				}
				if c.Kind == "half-open-last-slot" {
					cfg.CircuitBreaker.SuccessThreshold, cfg.CircuitBreaker.MaxRequests = 2, 2
				}
				sys, err := startSys(cfg, bes, false)
				if err != nil {
					return nil
				}
				adm := sys.admin()
				live := sys.LB.VerifBackends()
				// the first backends are ejected and their window has elapsed, so requests retry and re-admit
				sys.LB.MarkBackendUnhealthy(live[0], 2*time.Second)
				sys.LB.MarkBackendUnhealthy(live[1], time.Hour)
				time.Sleep(3 * time.Second)
				panicked := ""
				guard := func(fn func()) func() {
					return func() {
						defer func() {
							if r := recover(); r != nil && fmt.Sprint(r) != "net/http: abort Handler" {
								panicked = fmt.Sprint(r)
							}
						}()
						fn()
					}
				}
				req := func(i int, status int) func() {
					return guard(func() {
						var hdr [][2]string
						if status != 200 {
							hdr = [][2]string{{vh.ScriptHeader, vh.Script{Status: status}.Encode()}}
						}
						sys.call("GET", "/x", fmt.Sprintf("10.12.1.%d:1", i), hdr, nil)
					})
				}
				s.Only = map[string]bool{"lb.find.picked": true, "lb.expire.upgrade": true, "lb.expire.metrics": true, "lb.mark.enter": true, "lb.passive.counted": true,
					"lb.proxy.inc": true, "lb.proxy.dec": true, "cb.before.enter": true, "cb.after.enter": true, "cb.exec.count": true}
				switch c.Kind {
				case "traffic-vs-strategy":
					s.Go(req(0, 200))
					s.Go(req(1, 200))
					s.Go(guard(func() {
						adminDo(adm, "POST", "/v1/strategy", "127.0.0.1:1", nil, `{"strategy":"least_connections"}`)
					}))
				case "traffic-vs-remove":
					s.Go(req(0, 200))
					s.Go(guard(func() { adminDo(adm, "POST", "/v1/backends/remove", "127.0.0.1:1", nil, `{"name":"b0"}`) }))
					s.Go(guard(func() {
						adminDo(adm, "POST", "/v1/backends/add", "127.0.0.1:1", nil, fmt.Sprintf(`{"name":"n","address":%q}`, bes[2].URL))
					}))
				case "traffic-vs-eject":
					s.Go(req(0, 500))
					s.Go(req(1, 200))
					s.Go(guard(func() { sys.LB.MarkBackendUnhealthy(live[2], time.Second); listBackends(adm) }))
				case "expiry-vs-expiry":
					s.Go(guard(func() { sys.LB.IsBackendHealthy(live[0]) }))
					s.Go(guard(func() { sys.LB.IsBackendHealthy(live[0]) }))
					s.Go(req(0, 200))
				case "half-open-last-slot":
					// the breaker is open and its timeout has elapsed: the first request makes it half-open and takes
					// one of the two trial slots, the others compete for the last one
					sys.call("GET", "/x", "10.12.1.9:1", [][2]string{{vh.ScriptHeader, vh.Script{Status: 500}.Encode()}}, nil)
					time.Sleep(time.Duration(cfg.CircuitBreaker.TimeoutSeconds+1) * time.Second)
					s.Only["cb.before.half"] = true
					s.Go(req(0, 200))
					s.Go(req(1, 200))
					s.Go(req(2, 200))
				case "breaker-trip-vs-metrics":
					s.Go(req(0, 500))
					s.Go(req(1, 500))
					s.Go(guard(func() { sys.metricsJSON(); sys.healthJSON() }))
				}
				return func(s *vh.Sched, r vh.SchedResult) {
					o.Obs("schedules", 1)
					tr := fmt.Sprint(s.Trace)
					if r.Deadlock {
						o.Viol("C12|deadlock|"+c.Kind, fmt.Sprintf("%s %s: goroutines blocked for ever %v; trace %s", c.Strategy, c.Kind, r.Stuck, tr), map[string]any{"prefix": s.Choices, "trace": s.Trace})
						return
					}
					defer sys.Close()
					if panicked != "" {
						o.Viol("C12|panic|"+c.Kind, fmt.Sprintf("%s %s: panic %q; trace %s", c.Strategy, c.Kind, panicked, tr), map[string]any{"prefix": s.Choices, "trace": s.Trace})
						return
					}
					// nothing is left locked: the listing and a request still work
					okc := make(chan bool, 1)
					go func() {
						_, err := listBackends(adm)
						sys.call("GET", "/after", "10.12.2.2:1", nil, nil)
						okc <- err == nil
					}()
					select {
					case <-okc:
					case <-time.After(time.Minute):
						o.Viol("C12|deadlock|"+c.Kind+"|aftermath", fmt.Sprintf("%s %s: after the interleaving a request / the admin listing blocks for ever; trace %s", c.Strategy, c.Kind, tr), map[string]any{"prefix": s.Choices, "trace": s.Trace})
					}
				}
			}
			n, traces, _ := vh.Explore(world, e.Pick(3, 4), e.Pick(250, 2500), 400, 8*time.Second)
			o.Eval(int64(n))
			for t := range traces {
				o.Distinct(fmt.Sprintf("%v|%s", c, t))
			}
			o.Obs("distinct_interleavings", int64(len(traces)))
			if c.Strategy == "round_robin" && c.Kind == "traffic-vs-strategy" {
				var one string
				for t := range traces {
					one = t
					break
				}
				o.Sample(map[string]any{"part": "lock-interleavings", "case": c, "interleavings": len(traces), "one_trace": one})
			}
		})
}

// ---- Stop arriving while the probe loop is handing out the probes of one tick and an earlier probe is still in
// flight (forced through the hook before WaitGroup.Add), under the race detector: the shutdown's wait and the
// loop's bookkeeping must be ordered
func init() {
	type c12Stop struct {
		Strategy string `json:"strategy"`
		At       int    `json:"stop_at_probe"` // Stop is started when the loop is about to hand out this probe of a tick
		Round    int    `json:"round"`
	}
	vh.AddPart("C12", "stop-during-fanout", "race", vh.Opts{Shards: 5, Procs: 4, TimeoutS: 300},
		func(e *vh.Env) []c12Stop {
			var cs []c12Stop
			for i, st := range allStrategies {
				for at := 1; at <= 3; at++ {
					for r := 0; r < e.Pick(1, 4); r++ {
						cs = append(cs, c12Stop{st, at, r + i})
					}
				}
			}
			return cs
		},
		func(e *vh.Env, c c12Stop, o *vh.Out) {
			o.Need("stops_during_fanout")
			bes := newBackends(3)
			defer closeBackends(bes)
			for _, b := range bes {
				b.SetProbe(200, 150*time.Millisecond) // probes stay in flight for a while
			}
			cfg := baseConfig(c.Strategy, bes)
			cfg.HealthChecks.Active = config.ActiveHealthCheckConfig{Enabled: true, Interval: 1, Timeout: 0, Path: "/health"}
			cfg.HealthChecks.Active.Interval, cfg.HealthChecks.Active.Timeout = 2, 1
			var calls atomic.Int64
			stopped := make(chan struct{})
			var once sync.Once
			var lbp atomic.Pointer[loadbalancer.LoadBalancer]
			var stopStarted atomic.Bool
			if c12Wedged {
				o.Inconcl("case %s skipped: an earlier case left deadlocked goroutines in this process", vh.J(c))
				return
			}
			vhook.Set(func(pt string) {
				if pt != "lb.probe.add" {
					return
				}
				n := calls.Add(1)
				// the first tick (3 probes) passes; on the second tick Stop is started at the chosen probe
				if n == int64(3+c.At) {
					once.Do(func() {
						go func() {
							stopStarted.Store(true)
							if lb := lbp.Load(); lb != nil {
								lb.Stop()
							}
							close(stopped)
						}()
					})
					time.Sleep(30 * time.Millisecond)
				}
			})
			defer vhook.Set(nil)
			sys, err := startSys(cfg, bes, false)
			if err != nil {
				o.Inconcl("startSys: %v", err)
				return
			}
			lbp.Store(sys.LB)
			select {
			case <-stopped:
				o.Obs("stops_during_fanout", 1)
			case <-time.After(20 * time.Second):
				if !stopStarted.Load() {
					o.Inconcl("the probe loop did not reach its second tick within 20 s (case %s)", vh.J(c))
					break
				}
				// Stop was called and has not come back: examine the goroutines the same way as for a stalled operation
				stuck, all := c12Stalled()
				c12Wedged = true
				if stuck != "" {
					os.WriteFile(fmt.Sprintf("%s/stall-stop-%d.txt", e.TmpDir, c.Round), []byte(all), 0o644)
					o.Viol("C12|deadlock|"+c12StallFrame(stuck), fmt.Sprintf("%s: Stop, called while the second probe round was being fanned out, had not returned after 20 s and goroutines inside Helios stay parked on a lock or wait group with an unchanged stack over 8 s", vh.J(c)), map[string]any{"stuck_goroutines": trunc(stuck, 6000)})
				} else {
					o.Inconcl("Stop had not returned after 20 s but no goroutine inside Helios is parked on a lock (case %s)", vh.J(c))
				}
				return // closing the system would call Stop again and wait with it
			}
			time.Sleep(300 * time.Millisecond)
			sys.Close()
			o.Eval(1)
			o.Distinct(vh.J(c))
			if c.At == 2 && c.Round == 0 {
				o.Sample(map[string]any{"part": "stop-during-fanout", "case": c, "hook_calls": calls.Load()})
			}
		})
}

// ---- the breaker alone under the race detector: open periods of a fraction of a millisecond, so that opening,
// half-open trials, re-opening and closing overlap with admissions and refusals thousands of times per run; readers of
// State and Counts and a state-change callback that calls back into the breaker run alongside
func init() {
	type c12Hammer struct {
		FT, ST, MR int
		TimeoutUs  int `json:"timeout_us"`
		G          int `json:"goroutines"`
	}
	vh.AddPart("C12", "breaker-hammer", "race", vh.Opts{Shards: 3, Procs: 8, TimeoutS: 300, TimeoutSThorough: 900},
		func(e *vh.Env) []c12Hammer {
			var cs []c12Hammer
			for _, cf := range [][3]int{{1, 1, 1}, {2, 2, 3}, {3, 1, 2}} {
				for _, us := range []int{100, 400, 1500} {
					cs = append(cs, c12Hammer{cf[0], cf[1], cf[2], us, 8})
				}
			}
			return cs
		},
		func(e *vh.Env, c c12Hammer, o *vh.Out) {
			o.Need("breaker_calls", "breaker_state_changes")
			var changes atomic.Int64
			var cb *circuitbreaker.CircuitBreaker
			cb = circuitbreaker.NewCircuitBreaker(circuitbreaker.Settings{Name: "h", MaxRequests: uint32(c.MR), Interval: 5 * time.Millisecond, Timeout: time.Duration(c.TimeoutUs) * time.Microsecond,
				FailureThreshold: uint32(c.FT), SuccessThreshold: uint32(c.ST),
				OnStateChange: func(string, circuitbreaker.State, circuitbreaker.State) {
					changes.Add(1)
					_, _, _ = cb.Counts() // what the balancer's callback does
				}})
			n := e.Pick(20000, 100000)
			var wg sync.WaitGroup
			var calls atomic.Int64
			done := make(chan struct{})
			for g := 0; g < c.G; g++ {
				g := g
				wg.Add(1)
				go func() {
					defer wg.Done()
					r := rand.New(rand.NewSource(e.Seed*7907 + int64(g)))
					for i := 0; i < n; i++ {
						fail := r.Intn(3) == 0
						_ = cb.Execute(func() error {
							if r.Intn(64) == 0 {
								runtime.Gosched()
							}
							if fail {
								return fmt.Errorf("scripted failure")
							}
							return nil
						})
						calls.Add(1)
					}
				}()
			}
			go func() {
				for {
					select {
					case <-done:
						return
					default:
						_ = cb.State()
						_, _, _ = cb.Counts()
						runtime.Gosched()
					}
				}
			}()
			fin := make(chan struct{})
			go func() { wg.Wait(); close(fin) }()
			select {
			case <-fin:
			case <-time.After(120 * time.Second):
				stuck, _ := c12Stalled()
				c12Wedged = true
				if stuck != "" {
					o.Viol("C12|deadlock|"+c12StallFrame(stuck), fmt.Sprintf("%s: callers of Execute stay parked on a lock with an unchanged stack over 8 s (%d calls done)", vh.J(c), calls.Load()), map[string]any{"stuck_goroutines": trunc(stuck, 6000)})
				} else {
					o.Inconcl("breaker hammer %s not finished after 120 s", vh.J(c))
				}
				return
			}
			close(done)
			o.Eval(1)
			o.Distinct(vh.J(c))
			o.Obs("breaker_calls", calls.Load())
			o.Obs("breaker_state_changes", changes.Load())
			if c.TimeoutUs == 400 && c.FT == 2 {
				o.Sample(map[string]any{"part": "breaker-hammer", "case": c, "calls": calls.Load(), "state_changes": changes.Load()})
			}
		})
}
