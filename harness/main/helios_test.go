package main

import (
	"context"
	"reflect"
	"bytes"
	"encoding/json"
	"fmt"
	"io"
	"net"
	"net/http"
	"net/http/httptest"
	"strings"
	"sync"
	"time"

	"github.com/0xReLogic/Helios/internal/adminapi"
	"github.com/0xReLogic/Helios/internal/config"
	"github.com/0xReLogic/Helios/internal/loadbalancer"
	"github.com/0xReLogic/Helios/internal/logging"
	vh "github.com/0xReLogic/Helios/internal/verifh"
	"github.com/0xReLogic/Helios/internal/vhook"
)

var allStrategies = []string{"round_robin", "least_connections", "weighted_round_robin", "ip_hash", "ip_hash_consistent"}

func init() {
	logging.Init(config.LoggingConfig{Level: "fatal", Format: "json"})
}

// Sys is an in-process Helios: real balancer, real handler chain, real http.Server.
type Sys struct {
	Cfg      *config.Config
	LB       *loadbalancer.LoadBalancer
	Handler  http.Handler
	Srv      *http.Server
	Ln       net.Listener
	Addr     string
	Backends []*vh.Backend
	stopOnce sync.Once
}

// baseConfig returns a minimal valid configuration over the given backends.
func baseConfig(strategy string, bes []*vh.Backend) *config.Config {
	cfg := &config.Config{}
	cfg.Server.Port = 8080
	cfg.LoadBalancer.Strategy = strategy
	for _, b := range bes {
		cfg.Backends = append(cfg.Backends, config.BackendConfig{Name: b.Name, Address: b.URL, Weight: 1})
	}
	cfg.Logging.Level = "fatal"
	return cfg
}

func newBackends(n int) []*vh.Backend {
	bes := make([]*vh.Backend, n)
	for i := range bes {
		bes[i] = vh.NewBackend(fmt.Sprintf("b%d", i))
	}
	return bes
}

func closeBackends(bes []*vh.Backend) {
	for _, b := range bes {
		b.Close()
	}
}

// startSys builds the real stack. listen=false skips the TCP listener (handler-level use).
func startSys(cfg *config.Config, bes []*vh.Backend, listen bool) (*Sys, error) {
	lb, err := loadbalancer.NewLoadBalancer(cfg)
	if err != nil {
		return nil, err
	}
	h, err := buildHandler(cfg, lb)
	if err != nil {
		lb.Stop()
		return nil, err
	}
	s := &Sys{Cfg: cfg, LB: lb, Handler: h, Backends: bes}
	if listen {
		s.Srv = createHTTPServer(cfg, h)
		ln := vh.ListenLoopback()
		s.Ln = ln
		s.Addr = ln.Addr().String()
		if cfg.Server.TLS.Enabled {
			go s.Srv.ServeTLS(ln, cfg.Server.TLS.CertFile, cfg.Server.TLS.KeyFile)
		} else {
			go s.Srv.Serve(ln)
		}
	}
	return s, nil
}

// Close stops the server and the balancer.
func (s *Sys) Close() {
	s.stopOnce.Do(func() {
		if s.Srv != nil {
			s.Srv.Close()
		}
		s.LB.Stop()
	})
}

// call invokes the handler chain directly with a forged peer address.
func (s *Sys) call(method, target, remote string, hdr [][2]string, body []byte) *httptest.ResponseRecorder {
	var rd io.Reader
	if body != nil {
		rd = bytes.NewReader(body)
	}
	r := httptest.NewRequest(method, target, rd)
	if remote != "" {
		r.RemoteAddr = remote
	}
	for _, h := range hdr {
		r.Header.Add(h[0], h[1])
	}
	w := httptest.NewRecorder()
	s.Handler.ServeHTTP(finalOnly{w}, r)
	return w
}

// finalOnly gives the recorder net/http's treatment of informational responses: a 1xx
// WriteHeader is not the final status (httptest.ResponseRecorder would record it as such).
type finalOnly struct{ *httptest.ResponseRecorder }

func (f finalOnly) WriteHeader(code int) {
	if code >= 100 && code < 200 {
		return
	}
	f.ResponseRecorder.WriteHeader(code)
}

// servedBy extracts the backend id from a response produced by a scripted backend's default script.
func servedBy(w *httptest.ResponseRecorder) string {
	return w.Header().Get("X-Backend")
}

// liveBackend finds the balancer's *Backend by name.
func (s *Sys) liveBackend(name string) *loadbalancer.Backend {
	for _, b := range s.LB.VerifBackends() {
		if b.Name == name {
			return b
		}
	}
	return nil
}

// admin returns the admin mux for this system.
func (s *Sys) admin() http.Handler {
	return adminapi.NewMux(s.LB, s.Cfg, s.LB.GetMetricsCollector())
}

func adminDo(h http.Handler, method, path, remote string, hdr [][2]string, body string) *httptest.ResponseRecorder {
	r := httptest.NewRequest(method, path, strings.NewReader(body))
	if remote != "" {
		r.RemoteAddr = remote
	}
	for _, x := range hdr {
		r.Header.Add(x[0], x[1])
	}
	w := httptest.NewRecorder()
	h.ServeHTTP(w, r)
	return w
}

type backendInfo struct {
	Name    string `json:"name"`
	Address string `json:"address"`
	Healthy bool   `json:"healthy"`
	Active  int32  `json:"active_connections"`
	Weight  int    `json:"weight"`
}

func listBackends(h http.Handler) ([]backendInfo, error) {
	w := adminDo(h, "GET", "/v1/backends", "127.0.0.1:1", nil, "")
	if w.Code != 200 {
		return nil, fmt.Errorf("list: status %d", w.Code)
	}
	var out []backendInfo
	err := json.Unmarshal(w.Body.Bytes(), &out)
	return out, err
}

// metricsJSON fetches /metrics through the collector's handler.
func (s *Sys) metricsJSON() map[string]any {
	w := httptest.NewRecorder()
	s.LB.GetMetricsCollector().MetricsHandler()(w, httptest.NewRequest("GET", "/metrics", nil))
	var m map[string]any
	_ = json.Unmarshal(w.Body.Bytes(), &m)
	return m
}

// healthJSON fetches the metrics server's /health.
func (s *Sys) healthJSON() map[string]any {
	w := httptest.NewRecorder()
	s.LB.GetMetricsCollector().HealthHandler()(w, httptest.NewRequest("GET", "/health", nil))
	var m map[string]any
	_ = json.Unmarshal(w.Body.Bytes(), &m)
	return m
}

func num(m map[string]any, k string) int64 {
	if v, ok := m[k].(float64); ok {
		return int64(v)
	}
	return -1
}

// vsleep sleeps (virtual time under SIM).
func vsleep(d time.Duration) { time.Sleep(d) }

// vhFar is a time far in the (virtual) future.
func vhFar() time.Time { return time.Now().Add(10 * 365 * 24 * time.Hour) }

// vhYield is a suspension point inside harness-provided callbacks.
func vhYield(p string) { vhook.Yield(p) }

// callShutdown calls cmd/helios's shutdownGracefully through reflection, so that the harness still builds when a
// variant of the code gives that function further parameters. Arguments are chosen by type: the server, the balancer,
// the timeout, and - if asked for - a context that expires with the timeout (counted from now, i.e. from the
// "signal"), a signal channel nobody writes to, or zero values for anything else.
func callShutdown(srv *http.Server, lb *loadbalancer.LoadBalancer, timeout time.Duration) {
	fn := reflect.ValueOf(shutdownGracefully)
	ft := fn.Type()
	args := make([]reflect.Value, ft.NumIn())
	var cancels []context.CancelFunc
	for i := range args {
		pt := ft.In(i)
		switch {
		case pt == reflect.TypeOf(srv):
			args[i] = reflect.ValueOf(srv)
		case pt == reflect.TypeOf(lb):
			args[i] = reflect.ValueOf(lb)
		case pt == reflect.TypeOf(timeout):
			args[i] = reflect.ValueOf(timeout)
		case pt == reflect.TypeOf((*context.Context)(nil)).Elem():
			ctx, cancel := context.WithTimeout(context.Background(), timeout)
			cancels = append(cancels, cancel)
			args[i] = reflect.ValueOf(ctx)
		case pt.Kind() == reflect.Chan:
			args[i] = reflect.MakeChan(reflect.ChanOf(reflect.BothDir, pt.Elem()), 1).Convert(pt)
		default:
			args[i] = reflect.Zero(pt)
		}
	}
	fn.Call(args)
	for _, c := range cancels {
		c()
	}
}
