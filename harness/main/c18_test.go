package main

import (
	"fmt"
	"net"
	"net/http/httptest"
	"os"
	"os/exec"
	"path/filepath"
	"regexp"
	"sort"
	"strings"
	"syscall"
	"time"

	"gopkg.in/yaml.v3"

	"github.com/0xReLogic/Helios/internal/config"
	"github.com/0xReLogic/Helios/internal/loadbalancer"
	vh "github.com/0xReLogic/Helios/internal/verifh"
)

// C18: configuration loading. The reference validator below encodes the documented constraints
// independently of internal/config: a document is valid iff every section variant in it is valid.

type c18Variant struct {
	Y  string // YAML text of the section ("" = section omitted)
	OK bool
	D  string // description
	// MayRefuse: the document loads, but startup may refuse it with a clear error (a plugin option that is a
	// number but not a usable one); if startup accepts it the proxy must work
	MayRefuse bool
}

var c18Sections = map[string][]c18Variant{
	"server": {
		{"server:\n  port: 8080\n", true, "port 8080", false},
		{"server:\n  port: 1\n", true, "port 1", false},
		{"server:\n  port: 65535\n", true, "port 65535", false},
		{"server:\n  port: 8080\n  timeouts:\n    read: 0\n    write: 0\n    idle: 0\n    handler: 0\n    shutdown: 0\n    backend_dial: 0\n    backend_read: 0\n    backend_idle: 0\n", true, "zero timeouts", false},
		{"server:\n  port: 8080\n  timeouts:\n    read: 15\n    write: 15\n    idle: 60\n    handler: 30\n    shutdown: 30\n    backend_dial: 10\n    backend_read: 30\n    backend_idle: 90\n", true, "documented timeouts", false},
		{"server:\n  port: 8443\n  tls:\n    enabled: true\n    certFile: \"certs/cert.pem\"\n    keyFile: \"certs/key.pem\"\n", true, "tls with files", false},
		{"server:\n  port: 8080\n  tls:\n    enabled: false\n", true, "tls disabled without files", false},
		{"server:\n  port: 0\n", false, "port 0", false},
		{"", false, "server section missing", false},
		{"server:\n  port: -1\n", false, "negative port", false},
		{"server:\n  port: 65536\n", false, "port 65536", false},
		{"server:\n  port: 8080\n  tls:\n    enabled: true\n    keyFile: \"k\"\n", false, "tls without cert", false},
		{"server:\n  port: 8080\n  tls:\n    enabled: true\n    certFile: \"c\"\n", false, "tls without key", false},
		{"server:\n  port: 8080\n  timeouts:\n    read: -1\n", false, "negative read timeout", false},
		{"server:\n  port: 8080\n  timeouts:\n    write: -5\n", false, "negative write timeout", false},
		{"server:\n  port: 8080\n  timeouts:\n    idle: -1\n", false, "negative idle timeout", false},
		{"server:\n  port: 8080\n  timeouts:\n    handler: -1\n", false, "negative handler timeout", false},
		{"server:\n  port: 8080\n  timeouts:\n    shutdown: -2\n", false, "negative shutdown timeout", false},
		{"server:\n  port: 8080\n  timeouts:\n    backend_dial: -1\n", false, "negative dial timeout", false},
		{"server:\n  port: 8080\n  timeouts:\n    backend_read: -1\n", false, "negative backend read timeout", false},
		{"server:\n  port: 8080\n  timeouts:\n    backend_idle: -1\n", false, "negative backend idle timeout", false},
	},
	"backends": {
		{"backends:\n  - name: \"s1\"\n    address: \"http://127.0.0.1:8081\"\n", true, "one backend", false},
		{"backends:\n  - name: \"s1\"\n    address: \"http://127.0.0.1:8081\"\n    weight: 5\n  - name: \"s2\"\n    address: \"http://127.0.0.1:8082\"\n    weight: 0\n", true, "two backends, weight 0", false},
		{"", false, "no backends", false},
		{"backends: []\n", false, "empty backend list", false},
		{"backends:\n  - address: \"http://127.0.0.1:8081\"\n", false, "backend without name", false},
		{"backends:\n  - name: \"s1\"\n", false, "backend without address", false},
		{"backends:\n  - name: \"s1\"\n    address: \"http://127.0.0.1:8081\"\n    weight: -1\n", false, "negative weight", false},
		{"backends:\n  - name: \"s1\"\n    address: \"http://127.0.0.1:8081\"\n  - name: \"\"\n    address: \"http://127.0.0.1:8082\"\n", false, "second backend without name", false},
	},
	"load_balancer": {
		{"", true, "omitted", false},
		{"load_balancer:\n  strategy: \"round_robin\"\n", true, "round_robin", false},
		{"load_balancer:\n  strategy: \"least_connections\"\n", true, "least_connections", false},
		{"load_balancer:\n  strategy: \"weighted_round_robin\"\n", true, "weighted_round_robin", false},
		{"load_balancer:\n  strategy: \"ip_hash\"\n", true, "ip_hash", false},
		{"load_balancer:\n  strategy: \"ip_hash_consistent\"\n", true, "ip_hash_consistent", false},
		{"load_balancer:\n  strategy: \"round_robin\"\n  websocket_pool:\n    enabled: true\n    max_idle: 10\n    max_active: 100\n    idle_timeout_seconds: 300\n", true, "pool documented", false},
		{"load_balancer:\n  strategy: \"round_robin\"\n  websocket_pool:\n    enabled: true\n    max_idle: 0\n    max_active: 0\n    idle_timeout_seconds: 0\n", true, "pool zeros", false},
		{"load_balancer:\n  strategy: \"round_robin\"\n  websocket_pool:\n    enabled: true\n    max_idle: 5\n    max_active: 5\n", true, "pool idle == active", false},
		{"load_balancer:\n  strategy: \"round_robin\"\n  websocket_pool:\n    enabled: true\n    max_idle: 5\n    max_active: 0\n    idle_timeout_seconds: 60\n", true, "pool max_active 0 (unlimited) with max_idle 5", false},
		{"load_balancer:\n  strategy: \"ip_hash\"\n  websocket_pool:\n    enabled: true\n    max_idle: 1\n", true, "pool max_active omitted with max_idle 1", false},
		{"load_balancer:\n  strategy: \"round_robin\"\n  websocket_pool:\n    enabled: true\n    max_idle: 5000\n    max_active: 0\n", true, "pool max_active 0 (unlimited) with max_idle 5000", false},
		{"load_balancer:\n  strategy: \"least_connections\"\n  websocket_pool:\n    enabled: true\n    max_idle: 101\n    idle_timeout_seconds: 5\n", true, "pool max_active omitted with max_idle 101", false},
		{"load_balancer:\n  strategy: \"round_robin\"\n  websocket_pool:\n    enabled: true\n    max_idle: 1000000\n    max_active: 1000000\n    idle_timeout_seconds: 86400\n", true, "pool large equal limits", false},
		{"load_balancer:\n  strategy: \"round_robin\"\n  websocket_pool:\n    enabled: false\n    max_idle: -5\n", true, "pool disabled, values ignored", false},
		{"load_balancer:\n  websocket_pool:\n    enabled: true\n    max_idle: 2\n    max_active: 4\n    idle_timeout_seconds: 30\n", true, "pool valid, strategy omitted", false},
		{"load_balancer:\n  websocket_pool:\n    enabled: true\n    max_idle: -1\n", false, "pool negative max_idle, strategy omitted", false},
		{"load_balancer:\n  websocket_pool:\n    enabled: true\n    max_active: -1\n", false, "pool negative max_active, strategy omitted", false},
		{"load_balancer:\n  websocket_pool:\n    enabled: true\n    max_idle: 11\n    max_active: 10\n", false, "pool max_idle > max_active, strategy omitted", false},
		{"load_balancer:\n  websocket_pool:\n    enabled: true\n    max_idle: 1\n    max_active: 10\n    idle_timeout_seconds: -1\n", false, "pool negative idle timeout, strategy omitted", false},
		{"load_balancer:\n  strategy: \"ip_hash\"\n  websocket_pool:\n    enabled: true\n    max_idle: -1\n", false, "pool negative max_idle, ip_hash", false},
		{"load_balancer:\n  strategy: \"least_connections\"\n  websocket_pool:\n    enabled: true\n    max_idle: 3\n    max_active: 2\n", false, "pool max_idle > max_active, least_connections", false},
		{"load_balancer:\n  strategy: \"random\"\n", false, "unknown strategy", false},
		{"load_balancer:\n  strategy: \"Round_Robin\"\n", false, "strategy wrong case", false},
		{"load_balancer:\n  strategy: \"round_robin\"\n  websocket_pool:\n    enabled: true\n    max_idle: -1\n", false, "pool negative max_idle", false},
		{"load_balancer:\n  strategy: \"round_robin\"\n  websocket_pool:\n    enabled: true\n    max_active: -1\n", false, "pool negative max_active", false},
		{"load_balancer:\n  strategy: \"round_robin\"\n  websocket_pool:\n    enabled: true\n    max_idle: 11\n    max_active: 10\n", false, "pool max_idle > max_active", false},
		{"load_balancer:\n  strategy: \"round_robin\"\n  websocket_pool:\n    enabled: true\n    max_idle: 1\n    max_active: 10\n    idle_timeout_seconds: -1\n", false, "pool negative idle timeout", false},
	},
	"health_checks": {
		{"", true, "omitted", false},
		{"health_checks:\n  active:\n    enabled: true\n    interval: 10\n    timeout: 7\n    path: \"/\"\n  passive:\n    enabled: true\n    unhealthy_threshold: 3\n    unhealthy_timeout: 30\n", true, "documented", false},
		{"health_checks:\n  active:\n    enabled: true\n    interval: 2\n    timeout: 1\n    path: \"/health\"\n", true, "active only", false},
		{"health_checks:\n  passive:\n    enabled: true\n    unhealthy_threshold: 1\n    unhealthy_timeout: 1\n", true, "passive only", false},
		{"health_checks:\n  active:\n    enabled: false\n    interval: 0\n  passive:\n    enabled: false\n", true, "both disabled", false},
		{"health_checks:\n  active:\n    enabled: true\n    interval: 0\n    timeout: 1\n    path: \"/\"\n", false, "active zero interval", false},
		{"health_checks:\n  active:\n    enabled: true\n    interval: 5\n    timeout: 0\n    path: \"/\"\n", false, "active zero timeout", false},
		{"health_checks:\n  active:\n    enabled: true\n    interval: 5\n    timeout: 5\n    path: \"/\"\n", false, "active timeout == interval", false},
		{"health_checks:\n  active:\n    enabled: true\n    interval: 5\n    timeout: 9\n    path: \"/\"\n", false, "active timeout > interval", false},
		{"health_checks:\n  active:\n    enabled: true\n    interval: 5\n    timeout: 2\n", false, "active without path", false},
		{"health_checks:\n  active:\n    enabled: true\n    interval: -5\n    timeout: 2\n    path: \"/\"\n", false, "active negative interval", false},
		{"health_checks:\n  passive:\n    enabled: true\n    unhealthy_threshold: 0\n    unhealthy_timeout: 30\n", false, "passive zero threshold", false},
		{"health_checks:\n  passive:\n    enabled: true\n    unhealthy_threshold: 3\n    unhealthy_timeout: 0\n", false, "passive zero timeout", false},
		{"health_checks:\n  passive:\n    enabled: true\n", false, "passive enabled, fields omitted", false},
		{"health_checks:\n  active:\n    enabled: true\n    interval: 10\n    timeout: 7\n    path: \"/\"\n  passive:\n    enabled: true\n    unhealthy_threshold: 0\n    unhealthy_timeout: 30\n", false, "active valid, passive zero threshold", false},
		{"health_checks:\n  active:\n    enabled: true\n    interval: 10\n    timeout: 7\n    path: \"/\"\n  passive:\n    enabled: true\n    unhealthy_threshold: 2\n    unhealthy_timeout: -1\n", false, "active valid, passive negative timeout", false},
		{"health_checks:\n  active:\n    enabled: true\n    interval: 0\n    timeout: 1\n    path: \"/\"\n  passive:\n    enabled: true\n    unhealthy_threshold: 3\n    unhealthy_timeout: 30\n", false, "active zero interval, passive valid", false},
		{"health_checks:\n  active:\n    enabled: true\n    interval: 5\n    timeout: 9\n    path: \"/\"\n  passive:\n    enabled: true\n    unhealthy_threshold: 3\n    unhealthy_timeout: 30\n", false, "active timeout > interval, passive valid", false},
		{"health_checks:\n  active:\n    enabled: true\n    interval: 5\n    timeout: 2\n  passive:\n    enabled: true\n    unhealthy_threshold: 1\n    unhealthy_timeout: 1\n", false, "active without path, passive valid", false},
		{"health_checks:\n  active:\n    enabled: true\n    interval: 5\n    timeout: 2\n    path: \"/\"\n  passive:\n    enabled: false\n    unhealthy_threshold: 0\n", true, "active valid, passive disabled with zero fields", false},
	},
	"rate_limit": {
		{"", true, "omitted", false},
		{"rate_limit:\n  enabled: true\n  max_tokens: 100\n  refill_rate_seconds: 1\n", true, "documented", false},
		{"rate_limit:\n  enabled: false\n  max_tokens: 0\n", true, "disabled", false},
		{"rate_limit:\n  enabled: true\n  max_tokens: 0\n  refill_rate_seconds: 1\n", false, "zero max_tokens", false},
		{"rate_limit:\n  enabled: true\n  max_tokens: 10\n  refill_rate_seconds: 0\n", false, "zero refill", false},
		{"rate_limit:\n  enabled: true\n  max_tokens: -3\n  refill_rate_seconds: 1\n", false, "negative max_tokens", false},
		{"rate_limit:\n  enabled: true\n", false, "enabled, fields omitted", false},
	},
	"circuit_breaker": {
		{"", true, "omitted", false},
		{"circuit_breaker:\n  enabled: true\n  max_requests: 5\n  interval_seconds: 60\n  timeout_seconds: 60\n  failure_threshold: 5\n  success_threshold: 2\n", true, "documented", false},
		{"circuit_breaker:\n  enabled: true\n  interval_seconds: 30\n  timeout_seconds: 60\n  failure_threshold: 5\n  success_threshold: 2\n", true, "max_requests omitted", false},
		{"circuit_breaker:\n  enabled: false\n  failure_threshold: 0\n", true, "disabled", false},
		{"circuit_breaker:\n  enabled: true\n  interval_seconds: 60\n  timeout_seconds: 60\n  failure_threshold: 0\n  success_threshold: 2\n", false, "zero failure threshold", false},
		{"circuit_breaker:\n  enabled: true\n  interval_seconds: 60\n  timeout_seconds: 60\n  failure_threshold: 5\n  success_threshold: 0\n", false, "zero success threshold", false},
		{"circuit_breaker:\n  enabled: true\n  interval_seconds: 60\n  timeout_seconds: 0\n  failure_threshold: 5\n  success_threshold: 2\n", false, "zero timeout", false},
		{"circuit_breaker:\n  enabled: true\n  interval_seconds: 0\n  timeout_seconds: 60\n  failure_threshold: 5\n  success_threshold: 2\n", false, "zero interval", false},
		{"circuit_breaker:\n  enabled: true\n  interval_seconds: 60\n  timeout_seconds: -1\n  failure_threshold: 5\n  success_threshold: 2\n", false, "negative timeout", false},
	},
	"metrics": {
		{"", true, "omitted", false},
		{"metrics:\n  enabled: true\n  port: 9090\n  path: \"/metrics\"\n", true, "documented", false},
		{"metrics:\n  enabled: false\n  port: 0\n", true, "disabled", false},
		{"metrics:\n  enabled: true\n  port: 0\n  path: \"/metrics\"\n", false, "enabled port 0", false},
		{"metrics:\n  enabled: true\n  port: 70000\n  path: \"/metrics\"\n", false, "port too large", false},
		{"metrics:\n  enabled: true\n  port: 9090\n", false, "enabled without path", false},
	},
	"admin_api": {
		{"", true, "omitted", false},
		{"admin_api:\n  enabled: true\n  port: 9091\n  auth_token: \"change-me\"\n", true, "documented", false},
		{"admin_api:\n  enabled: true\n  port: 9091\n  ip_allow_list:\n    - \"127.0.0.1\"\n    - \"10.0.0.0/8\"\n  ip_deny_list:\n    - \"10.0.0.5\"\n", true, "with lists", false},
		{"admin_api:\n  enabled: false\n", true, "disabled", false},
		{"admin_api:\n  enabled: true\n  port: 0\n", false, "enabled port 0", false},
		{"admin_api:\n  enabled: true\n  port: 65536\n", false, "port too large", false},
		{"admin_api:\n  enabled: true\n  port: -9\n", false, "negative port", false},
	},
	"logging": {
		{"", true, "omitted", false},
		{"logging:\n  level: \"info\"\n  format: \"text\"\n  include_caller: false\n  request_id:\n    enabled: true\n    header: \"X-Request-ID\"\n  trace:\n    enabled: true\n    header: \"X-Trace-ID\"\n", true, "documented", false},
		{"logging:\n  level: \"debug\"\n  format: \"json\"\n", true, "debug json", false},
		{"logging:\n  level: \"warn\"\n  format: \"console\"\n", true, "warn console", false},
		{"logging:\n  level: \"error\"\n", true, "error", false},
		{"logging:\n  level: \"fatal\"\n", true, "fatal", false},
		{"logging:\n  level: \"verbose\"\n", false, "unknown level", false},
		{"logging:\n  level: \"INFO\"\n", false, "level wrong case", false},
		{"logging:\n  level: \"info\"\n  format: \"xml\"\n", false, "unknown format", false},
		{"logging:\n  format: \"invalid\"\n", false, "format invalid", false},
	},
	"plugins": {
		{"", true, "omitted", false},
		{"plugins:\n  enabled: true\n  chain:\n    - name: logging\n    - name: size_limit\n      config:\n        max_request_body: 10485760\n        max_response_body: 52428800\n    - name: gzip\n      config:\n        level: 5\n        min_size: 1024\n        content_types:\n          - \"text/html\"\n          - \"application/json\"\n    - name: headers\n      config:\n        set:\n          X-App: Helios\n        request_set:\n          X-From: LB\n", true, "documented chain (YAML integers)", false},
		{"plugins:\n  enabled: true\n  chain:\n    - name: gzip\n      config:\n        level: 6.0\n        min_size: 512.0\n        content_types: [\"text/\"]\n    - name: size_limit\n      config:\n        max_request_body: 1048576.0\n", true, "floats", false},
		{"plugins:\n  enabled: true\n  chain:\n    - name: gzip\n      config:\n        level: -1\n        min_size: 0\n        content_types: [\"application/json\"]\n    - name: request-id\n    - name: custom-auth\n      config:\n        apiKey: \"secret\"\n", true, "level -1, custom-auth", false},
		{"plugins:\n  enabled: true\n  chain:\n    - name: size_limit\n      config:\n        max_request_body: 1e6\n        max_response_body: 0x100000\n", true, "exponent and hex numbers", false},
		{"plugins:\n  enabled: false\n", true, "disabled", false},
		{"plugins:\n  enabled: true\n  chain:\n    - name: size_limit\n    - name: logging\n    - name: request-id\n    - name: headers\n", true, "plugins without a config block (defaults apply)", true},
		{"plugins:\n  enabled: true\n  chain:\n    - name: size_limit\n      config:\n    - name: headers\n      config: {}\n", true, "plugins with an empty config block", true},
		{"plugins:\n  enabled: true\n  chain:\n    - name: size_limit\n      config:\n        max_request_body: 0.5\n", true, "size_limit fractional request limit below 1", true},
		{"plugins:\n  enabled: true\n  chain:\n    - name: size_limit\n      config:\n        max_request_body: 1000\n        max_response_body: 0.999\n", true, "size_limit fractional response limit below 1", true},
		{"plugins:\n  enabled: true\n  chain:\n    - name: gzip\n      config:\n        level: 5.7\n        min_size: 0.2\n        content_types: [\"text/\"]\n", true, "gzip fractional numbers", true},
		// the document loads (plugin options are checked when the chain is built) but startup has to refuse it
		{"plugins:\n  enabled: true\n  chain:\n    - name: gzip\n      config:\n        level: 12.0\n        min_size: 16\n        content_types: [\"text/\"]\n", true, "startup refuses: gzip level 12.0", false},
		{"plugins:\n  enabled: true\n  chain:\n    - name: gzip\n      config:\n        level: 1e1\n        min_size: 16\n        content_types: [\"text/\"]\n", true, "startup refuses: gzip level 1e1", false},
		{"plugins:\n  enabled: true\n  chain:\n    - name: gzip\n      config:\n        level: -3.0\n        min_size: 16\n        content_types: [\"text/\"]\n", true, "startup refuses: gzip level -3.0", false},
		{"plugins:\n  enabled: true\n  chain:\n    - name: gzip\n      config:\n        level: 10\n        min_size: 16\n        content_types: [\"text/\"]\n", true, "startup refuses: gzip level 10", false},
		{"plugins:\n  enabled: true\n  chain:\n    - name: logging\n    - name: size_limit\n      config:\n        max_request_body: -1.0\n", true, "startup refuses: size_limit negative float limit", false},
		{"plugins:\n  enabled: true\n  chain:\n    - name: logging\n    - name: custom-auth\n      config:\n        apiKey: \"\"\n    - name: headers\n", true, "startup refuses: custom-auth with an empty key between two valid plugins", false},
	},
}

var c18Order = []string{"server", "backends", "load_balancer", "health_checks", "rate_limit", "circuit_breaker", "metrics", "admin_api", "logging", "plugins"}

type c18Doc struct {
	Pick map[string]int `json:"pick"` // section -> variant index
	Kind string         `json:"kind"`
}

func (d c18Doc) text() (string, bool, []string) {
	var sb strings.Builder
	ok := true
	var bad []string
	for _, s := range c18Order {
		v := c18Sections[s][d.Pick[s]]
		sb.WriteString(v.Y)
		if !v.OK {
			ok = false
			bad = append(bad, s+": "+v.D)
		}
	}
	return sb.String(), ok, bad
}

func c18FirstValid(s string) int {
	for i, v := range c18Sections[s] {
		if v.OK && v.Y != "" {
			return i
		}
	}
	return 0
}

func c18LoadText(e *vh.Env, text, tag string) (*config.Config, error) {
	p := filepath.Join(e.TmpDir, tag+".yaml")
	if err := os.WriteFile(p, []byte(text), 0o644); err != nil {
		return nil, err
	}
	defer os.Remove(p)
	return config.LoadConfig(p)
}

// c18Start checks that an accepted configuration builds a balancer and a handler without panicking.
func c18Start(cfg *config.Config) (err error) {
	return c18StartProbe(cfg, false)
}

// c18StartProbe additionally sends a one-byte request through the handler: the proxy must work, i.e. the
// request must get past the plugin chain (it then fails at the unreachable sample backend, which is fine).
func c18StartProbe(cfg *config.Config, probe bool) (err error) {
	defer func() {
		if r := recover(); r != nil {
			err = fmt.Errorf("panic: %v", r)
		}
	}()
	lb, e1 := loadbalancer.NewLoadBalancer(cfg)
	if e1 != nil {
		return fmt.Errorf("NewLoadBalancer: %w", e1)
	}
	defer lb.Stop()
	h, e2 := buildHandler(cfg, lb)
	if e2 != nil {
		return fmt.Errorf("buildHandler: %w", e2)
	}
	if probe {
		r := httptest.NewRequest("POST", "/probe", strings.NewReader("x"))
		r.Header.Set("X-API-Key", "secret")
		w := httptest.NewRecorder()
		h.ServeHTTP(w, r)
		if w.Code == 413 || w.Code == 401 || w.Code == 429 {
			return fmt.Errorf("NOTWORKING: a one-byte request is answered %d by the freshly started proxy", w.Code)
		}
	}
	return nil
}

type c18Bin struct {
	Kind string `json:"kind"`
	Idx  int    `json:"idx"`
}

var yamlBlock = regexp.MustCompile("(?s)```ya?ml\\n(.*?)```")

func init() {
	vh.AddPart("C18", "validator", "plain", vh.Opts{Shards: 16, Procs: 1, TimeoutS: 400, TimeoutSThorough: 2500},
		func(e *vh.Env) []c18Doc {
			var docs []c18Doc
			base := map[string]int{}
			for _, s := range c18Order {
				base[s] = c18FirstValid(s)
			}
			clone := func() map[string]int {
				m := map[string]int{}
				for k, v := range base {
					m[k] = v
				}
				return m
			}
			// every variant alone in an otherwise valid document
			for _, s := range c18Order {
				for i := range c18Sections[s] {
					m := clone()
					m[s] = i
					docs = append(docs, c18Doc{m, "single"})
				}
			}
			// every pair of invalid variants (the validator returns on the first error, so combinations matter)
			type sv struct {
				s string
				i int
			}
			var inv []sv
			for _, s := range c18Order {
				for i, v := range c18Sections[s] {
					if !v.OK {
						inv = append(inv, sv{s, i})
					}
				}
			}
			for a := 0; a < len(inv); a++ {
				for b := a + 1; b < len(inv); b++ {
					if inv[a].s == inv[b].s {
						continue
					}
					m := clone()
					m[inv[a].s], m[inv[b].s] = inv[a].i, inv[b].i
					docs = append(docs, c18Doc{m, "pair"})
				}
			}
			// every pair (valid or invalid) of variants from two different sections
			if e.Thorough() {
				for a := 0; a < len(c18Order); a++ {
					for b := a + 1; b < len(c18Order); b++ {
						for i := range c18Sections[c18Order[a]] {
							for j := range c18Sections[c18Order[b]] {
								m := clone()
								m[c18Order[a]], m[c18Order[b]] = i, j
								docs = append(docs, c18Doc{m, "allpairs"})
							}
						}
					}
				}
			}
			// seeded combinations over all sections
			r := e.Rand("c18docs")
			for k := 0; k < e.Pick(3000, 40000); k++ {
				m := map[string]int{}
				for _, s := range c18Order {
					vs := c18Sections[s]
					// mostly valid variants so that accepted documents with unusual combinations are frequent
					for {
						i := r.Intn(len(vs))
						if vs[i].OK || r.Intn(30) == 0 {
							m[s] = i
							break
						}
					}
				}
				docs = append(docs, c18Doc{m, "random"})
			}
			return docs
		},
		func(e *vh.Env, d c18Doc, o *vh.Out) {
			o.Need("documents", "accepted", "rejected", "accepted_started")
			text, ok, bad := d.text()
			cfg, err := c18LoadText(e, text, fmt.Sprintf("doc-%d", e.Shard))
			o.Eval(1)
			o.Obs("documents", 1)
			key := make([]string, 0, len(d.Pick))
			for _, s := range c18Order {
				key = append(key, fmt.Sprint(d.Pick[s]))
			}
			o.Distinct(strings.Join(key, ","))
			switch {
			case ok && err != nil:
				o.Viol("C18|valid-rejected|"+c18ErrClass(err), fmt.Sprintf("a document whose every section satisfies the documented constraints was rejected: %v", err), map[string]any{"document": text})
			case !ok && err == nil:
				sort.Strings(bad)
				o.Viol("C18|invalid-accepted|"+bad[0], fmt.Sprintf("a document violating %v was accepted", bad), map[string]any{"document": text})
			case ok:
				o.Obs("accepted", 1)
				// an accepted configuration builds a balancer and a handler (no listener involved yet)
				if d.Kind == "single" || d.Kind == "random" {
					cfg.Logging.Level = "fatal"
					pv := c18Sections["plugins"][d.Pick["plugins"]]
					mayRefuse := pv.MayRefuse
					if strings.HasPrefix(pv.D, "startup refuses: ") {
						if err := c18StartProbe(cfg, false); err == nil || strings.Contains(err.Error(), "panic") {
							o.Viol("C18|invalid-plugin-option-started|"+strings.TrimPrefix(pv.D, "startup refuses: "), fmt.Sprintf("a plugin option outside its documented range (%s) does not stop the start-up: %v", pv.D, err), map[string]any{"document": text})
							return
						}
						o.Obs("refused_at_startup_with_error", 1)
						return
					}
					if err := c18StartProbe(cfg, true); err != nil {
						if mayRefuse && !strings.Contains(err.Error(), "NOTWORKING") && !strings.Contains(err.Error(), "panic") {
							o.Obs("refused_at_startup_with_error", 1)
							return
						}
						o.Viol("C18|accepted-does-not-start|"+c18ErrClass(err), fmt.Sprintf("an accepted configuration cannot be started or does not work: %v", err), map[string]any{"document": text})
						return
					}
					o.Obs("accepted_started", 1)
				}
			default:
				o.Obs("rejected", 1)
			}
			if d.Kind == "pair" && d.Pick["server"] == 7 && len(o.Samples) == 0 {
				o.Sample(map[string]any{"part": "validator", "kind": d.Kind, "invalid_sections": bad, "document": text})
			}
		})

	// ---- documented corpus: shipped sample files and every YAML block of README.md / docs
	type c18Corpus struct {
		File  string `json:"file"`
		Block int    `json:"block"` // -1: whole file
	}
	vh.AddPart("C18", "documented", "plain", vh.Opts{Shards: 1, Procs: 2, TimeoutS: 200},
		func(e *vh.Env) []c18Corpus {
			cs := []c18Corpus{{"helios.yaml", -1}, {"helios.docker.yaml", -1}}
			files := []string{"README.md"}
			if ms, _ := filepath.Glob(filepath.Join(e.RepoDir, "docs", "*.md")); ms != nil {
				for _, m := range ms {
					files = append(files, "docs/"+filepath.Base(m))
				}
			}
			sort.Strings(files)
			for _, f := range files {
				b, err := os.ReadFile(filepath.Join(e.RepoDir, f))
				if err != nil {
					continue
				}
				for i := range yamlBlock.FindAllSubmatch(b, -1) {
					cs = append(cs, c18Corpus{f, i})
				}
			}
			return cs
		},
		func(e *vh.Env, c c18Corpus, o *vh.Out) {
			o.Need("documented_loaded")
			b, err := os.ReadFile(filepath.Join(e.RepoDir, c.File))
			if err != nil {
				o.Inconcl("read %s: %v", c.File, err)
				return
			}
			text := string(b)
			where := c.File
			if c.Block >= 0 {
				text = string(yamlBlock.FindAllSubmatch(b, -1)[c.Block][1])
				where = fmt.Sprintf("%s#yaml-block-%d", c.File, c.Block+1)
				var m map[string]interface{}
				if err := yaml.Unmarshal([]byte(text), &m); err != nil || m == nil {
					o.Obs("blocks_not_config", 1)
					return
				}
				known := 0
				for _, s := range c18Order {
					if _, ok := m[s]; ok {
						known++
					}
				}
				if known == 0 {
					o.Obs("blocks_not_config", 1) // e.g. a docker-compose or kubernetes snippet
					return
				}
				// partial blocks are merged onto a minimal base
				if _, ok := m["server"]; !ok {
					m["server"] = map[string]interface{}{"port": 8080}
				}
				if _, ok := m["backends"]; !ok {
					m["backends"] = []interface{}{map[string]interface{}{"name": "s1", "address": "http://127.0.0.1:8081"}}
				}
				mb, _ := yaml.Marshal(m)
				text = string(mb)
			}
			o.Eval(1)
			o.Distinct(where)
			cfg, err := c18LoadText(e, text, "corpus")
			if err != nil {
				o.Viol("C18|documented-rejected|"+where+"|"+c18ErrClass(err), fmt.Sprintf("%s is presented as a valid configuration but loading it fails: %v", where, err), map[string]any{"document": trunc(text, 1500)})
				return
			}
			cfg.Logging.Level = "fatal"
			if cfg.Server.TLS.Enabled {
				// certificate paths in the documentation are relative to the repository root
				cfg.Server.TLS.CertFile = filepath.Join(e.RepoDir, cfg.Server.TLS.CertFile)
				cfg.Server.TLS.KeyFile = filepath.Join(e.RepoDir, cfg.Server.TLS.KeyFile)
			}
			if err := c18Start(cfg); err != nil {
				if strings.Contains(err.Error(), "unknown plugin") && strings.Contains(c.File, "plugin-development") {
					o.Obs("tutorial_plugin_blocks", 1) // a block that names the reader's own, not yet written plugin
					return
				}
				o.Viol("C18|documented-does-not-start|"+where+"|"+c18ErrClass(err), fmt.Sprintf("%s loads but cannot be started: %v", where, err), map[string]any{"document": trunc(text, 1500)})
				return
			}
			o.Obs("documented_loaded", 1)
			if c.File == "helios.yaml" {
				o.Sample(map[string]any{"part": "documented", "source": where, "result": "loaded, balancer and handler built"})
			}
		})

	// ---- process level: accepted configurations start completely or fail cleanly
	vh.AddPart("C18", "binary", "plain", vh.Opts{Shards: 8, Procs: 2, TimeoutS: 400, NeedBin: true},
		func(e *vh.Env) []c18Bin {
			cs := []c18Bin{{"sample-file", 0}, {"sample-file", 1}}
			for i := 0; i < e.Pick(6, 30); i++ {
				cs = append(cs, c18Bin{"valid-random", i})
			}
			for _, k := range []string{"metrics-port-taken", "admin-port-taken", "server-port-taken", "tls-files-missing", "duplicate-backend-names", "unparsable-backend-address", "same-port-twice", "server-port-taken-no-logging-section", "tls-files-missing-no-logging-section"} {
				cs = append(cs, c18Bin{k, 0})
			}
			return cs
		},
		func(e *vh.Env, c c18Bin, o *vh.Out) {
			o.Need("binary_started_completely", "binary_failed_cleanly")
			for attempt := 0; attempt < 4; attempt++ {
				if !c18BinOnce(e, c, o) {
					return
				}
			}
			o.Inconcl("binary case %v: the harness could not keep its ports free in 4 attempts", c)
		})
}

// c18ErrClass reduces an error to a short class for signatures.
func c18ErrClass(err error) string {
	s := err.Error()
	s = regexp.MustCompile(`[0-9]+`).ReplaceAllString(s, "N")
	if i := strings.LastIndex(s, ": "); i >= 0 && i < len(s)-2 {
		s = s[i+2:]
	}
	if len(s) > 60 {
		s = s[:60]
	}
	return s
}

// c18BinOnce runs one process-level case; it returns true if the case must be repeated because a port the harness
// had picked was taken by another process before the binary could bind it.
func c18BinOnce(e *vh.Env, c c18Bin, o *vh.Out) bool {
	be := vh.NewBackend("b0")
	defer be.Close()
	var cfg *config.Config
	switch c.Kind {
	case "sample-file":
		f := []string{"helios.yaml", "helios.docker.yaml"}[c.Idx]
		lc, err := config.LoadConfig(filepath.Join(e.RepoDir, f))
		if err != nil {
			o.Viol("C18|documented-rejected|"+f+"|"+c18ErrClass(err), fmt.Sprintf("%s: %v", f, err), nil)
			return false
		}
		cfg = lc
	default:
		r := e.Rand("c18bin", c.Kind, c.Idx)
		for {
			m := map[string]int{}
			for _, s := range c18Order {
				vs := c18Sections[s]
				for {
					i := r.Intn(len(vs))
					if vs[i].OK && !vs[i].MayRefuse && !strings.HasPrefix(vs[i].D, "startup refuses: ") {
						m[s] = i
						break
					}
				}
			}
			text, _, _ := c18Doc{m, "bin"}.text()
			lc, err := c18LoadText(e, text, "bin")
			if err == nil && !lc.Server.TLS.Enabled {
				cfg = lc
				break
			}
		}
	}
	// rewrite addresses and ports to this machine
	for i := range cfg.Backends {
		cfg.Backends[i].Address = be.URL
	}
	cfg.Server.Port = freePort()
	if cfg.Metrics.Enabled {
		cfg.Metrics.Port = freePort()
	}
	if cfg.AdminAPI.Enabled {
		cfg.AdminAPI.Port = freePort()
		cfg.AdminAPI.IPAllowList, cfg.AdminAPI.IPDenyList = nil, nil
	}
	cfg.HealthChecks.Active.Path = "/health"
	cfg.Logging.Level = "info"
	var blockers []net.Listener
	defer func() {
		for _, l := range blockers {
			l.Close()
		}
	}()
	take := func(port int) {
		l, err := net.Listen("tcp", fmt.Sprintf(":%d", port))
		if err == nil {
			blockers = append(blockers, l)
		}
	}
	expectFail := true
	switch c.Kind {
	case "metrics-port-taken":
		cfg.Metrics = config.MetricsConfig{Enabled: true, Port: freePort(), Path: "/metrics"}
		take(cfg.Metrics.Port)
	case "admin-port-taken":
		cfg.AdminAPI = config.AdminAPIConfig{Enabled: true, Port: freePort()}
		take(cfg.AdminAPI.Port)
	case "server-port-taken":
		take(cfg.Server.Port)
	case "server-port-taken-no-logging-section":
		// the logging section left out (as in the README's basic configuration): the error must still be said
		cfg.Logging = config.LoggingConfig{}
		take(cfg.Server.Port)
	case "tls-files-missing-no-logging-section":
		cfg.Logging = config.LoggingConfig{}
		cfg.Server.TLS = config.TLSConfig{Enabled: true, CertFile: "/nonexistent/cert.pem", KeyFile: "/nonexistent/key.pem"}
	case "tls-files-missing":
		cfg.Server.TLS = config.TLSConfig{Enabled: true, CertFile: "/nonexistent/cert.pem", KeyFile: "/nonexistent/key.pem"}
	case "duplicate-backend-names":
		cfg.Backends = append(cfg.Backends, cfg.Backends[0])
	case "unparsable-backend-address":
		cfg.Backends[0].Address = "http://[::1"
	case "same-port-twice":
		cfg.Metrics = config.MetricsConfig{Enabled: true, Port: cfg.Server.Port, Path: "/metrics"}
	default:
		expectFail = false
	}
	if err := cfg.Validate(); err != nil {
		o.Obs("variant_rejected_by_validation", 1)
		return false
	}
	data, _ := yaml.Marshal(cfg)
	path := filepath.Join(e.TmpDir, fmt.Sprintf("%s-%d.yaml", c.Kind, c.Idx))
	os.WriteFile(path, data, 0o644)
	logp := path + ".log"
	logf, _ := os.Create(logp)
	cmd := exec.Command(e.BinPath, "-config", path)
	cmd.Stdout, cmd.Stderr = logf, logf
	if err := cmd.Start(); err != nil {
		o.Inconcl("start: %v", err)
		return false
	}
	done := make(chan error, 1)
	go func() { done <- cmd.Wait() }()
	o.Eval(1)
	o.Distinct(vh.J(c))
	ports := map[string]int{"proxy": cfg.Server.Port}
	if cfg.Metrics.Enabled {
		ports["metrics"] = cfg.Metrics.Port
	}
	if cfg.AdminAPI.Enabled {
		ports["admin"] = cfg.AdminAPI.Port
	}
	listening := func(port int) bool { return vh.PidListens(cmd.Process.Pid, port) }
	exited := false
	var exitErr error
	t0 := time.Now()
	// generous real-time bounds: up to 20 s to come up completely or to exit
	for time.Since(t0) < 20*time.Second && !exited {
		select {
		case exitErr = <-done:
			exited = true
		default:
			time.Sleep(20 * time.Millisecond)
		}
		if !exited {
			all := true
			for _, p := range ports {
				if !listening(p) {
					all = false
				}
			}
			if all && (!expectFail || time.Since(t0) > 3*time.Second) {
				break
			}
			if !all && expectFail && time.Since(t0) > 8*time.Second {
				break // it keeps running without one of its listeners
			}
		}
	}
	logf.Close()
	outb, _ := os.ReadFile(logp)
	out := string(outb)
	ctx := fmt.Sprintf("%s #%d", c.Kind, c.Idx)
	if strings.Contains(out, "panic:") || strings.Contains(out, "goroutine 1 [") {
		o.Viol("C18|binary|panic|"+c.Kind, fmt.Sprintf("%s: the binary printed a panic trace: %s", ctx, trunc(out, 600)), map[string]any{"config": string(data)})
		if !exited {
			cmd.Process.Kill()
			<-done
		}
		return false
	}
	if exited {
		code := 0
		if ee, ok := exitErr.(*exec.ExitError); ok {
			code = ee.ExitCode()
		}
		if !expectFail && strings.Contains(out, "address already in use") {
			// a port the harness had picked as free was taken by another process before the binary bound it:
			// the caller tries again with fresh ports
			o.Obs("binary_runs_repeated_after_losing_a_port", 1)
			return true
		}
		if !expectFail {
			o.Viol("C18|binary|accepted-config-exited", fmt.Sprintf("%s: an accepted configuration exited with code %d: %s", ctx, code, trunc(out, 400)), map[string]any{"config": string(data)})
			return false
		}
		if code == 0 {
			o.Viol("C18|binary|exit-zero|"+c.Kind, fmt.Sprintf("%s: could not start but exited 0", ctx), nil)
			return false
		}
		if strings.TrimSpace(out) == "" { // how the message is worded or structured is not checked, only that there is one
			o.Viol("C18|binary|no-message|"+c.Kind, fmt.Sprintf("%s: exited %d without a clear error message: %q", ctx, code, trunc(out, 200)), nil)
			return false
		}
		o.Obs("binary_failed_cleanly", 1)
		return false
	}
	// still running: it must listen on everything that was configured and serve through the backend
	var missing []string
	for name, p := range ports {
		if !listening(p) {
			missing = append(missing, fmt.Sprintf("%s:%d", name, p))
		}
	}
	sort.Strings(missing)
	if len(missing) > 0 {
		o.Viol("C18|binary|half-configured|"+c.Kind, fmt.Sprintf("%s: the process keeps running but does not listen on %v", ctx, missing), map[string]any{"output": trunc(out, 600), "config": string(data)})
	} else {
		hdr := [][2]string{{"X-API-Key", "secret"}}
		rs := vh.Do(fmt.Sprintf("127.0.0.1:%d", cfg.Server.Port), vh.RawReq{Method: "GET", Target: "/", Headers: hdr, TimeoutMs: 5000})
		if rs.Status != 200 {
			o.Viol("C18|binary|started-not-serving", fmt.Sprintf("%s: started but a request through it got %d %q", ctx, rs.Status, rs.Err), map[string]any{"config": string(data)})
		} else {
			o.Obs("binary_started_completely", 1)
		}
	}
	cmd.Process.Signal(syscall.SIGTERM)
	select {
	case <-done:
	case <-time.After(10 * time.Second):
		cmd.Process.Kill()
		<-done
	}
	if c.Kind == "sample-file" && c.Idx == 0 {
		o.Sample(map[string]any{"part": "binary", "case": c, "ports": ports, "result": "all listeners up, request served"})
	}
	return false
}
