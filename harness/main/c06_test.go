package main

import (
	"fmt"
	"hash/fnv"
	"net"
	"net/http/httptest"
	"strings"
	"sync"
	"time"

	"github.com/0xReLogic/Helios/internal/config"
	"github.com/0xReLogic/Helios/internal/loadbalancer"
	vh "github.com/0xReLogic/Helios/internal/verifh"
)

// ---------------------------------------------------------------- jump step

type c06Range struct {
	Kind string `json:"kind"` // range | sparse | random
	Lo   uint64 `json:"lo"`
	Hi   uint64 `json:"hi"`
	MaxN int32  `json:"max_n"`
	Seed int64  `json:"seed,omitempty"`
	Wide bool   `json:"wide,omitempty"` // also 64-bit keys (beyond what the strategy feeds)
}

func c06CheckKey(h uint64, maxN int32, c c06Range, o *vh.Out) {
	prev := int32(-1)
	for n := int32(1); n <= maxN; n++ {
		j := loadbalancer.VerifJumpHash(h, n)
		if j < 0 || j >= n {
			o.Viol("C06|jump|out-of-range", fmt.Sprintf("jump(%d,%d)=%d is not in [0,%d)", h, n, j, n), map[string]any{"h": h, "n": n, "j": j})
			return
		}
		if n > 1 && j != prev && j != n-1 {
			o.Viol("C06|jump|non-minimal-remap", fmt.Sprintf("growing the pool %d->%d moves key %d from bucket %d to old bucket %d", n-1, n, h, prev, j), map[string]any{"h": h, "n": n, "from": prev, "to": j})
			return
		}
		if n > 1 && j != prev {
			o.Obs("keys_moved_to_new_bucket", 1)
		}
		prev = j
	}
}

func init() {
	vh.AddPart("C06", "jump", "plain", vh.Opts{Shards: 16, Procs: 1, TimeoutS: 200, TimeoutSThorough: 3000},
		func(e *vh.Env) []c06Range {
			var cs []c06Range
			if e.Thorough() {
				// the strategy feeds uint64(uint32 hash): the whole 32-bit space, exhaustively
				for i := uint64(0); i < 256; i++ {
					cs = append(cs, c06Range{Kind: "range", Lo: i << 24, Hi: (i + 1) << 24, MaxN: 32})
				}
			} else {
				for i := int64(0); i < 16; i++ {
					cs = append(cs, c06Range{Kind: "random", Lo: 0, Hi: 1 << 18, MaxN: 64, Seed: i})
				}
			}
			cs = append(cs, c06Range{Kind: "sparse", MaxN: 128})
			cs = append(cs, c06Range{Kind: "range", Lo: 0, Hi: 1 << 16, MaxN: 1024})
			cs = append(cs, c06Range{Kind: "range", Lo: (1 << 32) - (1 << 16), Hi: 1 << 32, MaxN: 1024})
			return cs
		},
		func(e *vh.Env, c c06Range, o *vh.Out) {
			o.Need("keys_moved_to_new_bucket")
			switch c.Kind {
			case "range":
				for h := c.Lo; h < c.Hi; h++ {
					c06CheckKey(h, c.MaxN, c, o)
				}
				o.Eval(int64(c.Hi-c.Lo) * int64(c.MaxN))
				o.DistinctCount(int64(c.Hi - c.Lo))
			case "random":
				r := e.Rand("c06jump", c.Seed)
				for i := c.Lo; i < c.Hi; i++ {
					c06CheckKey(uint64(r.Uint32()), c.MaxN, c, o)
				}
				o.Eval(int64(c.Hi-c.Lo) * int64(c.MaxN))
				o.DistinctCount(int64(c.Hi - c.Lo)) // 2^18 draws from 2^32: collisions are negligible and only over-count by < 0.01%
			case "sparse":
				// all 32-bit values with <= 2 bits set or <= 2 bits cleared
				n := int64(0)
				for i := 0; i < 32; i++ {
					for j := i; j < 32; j++ {
						v := uint32(1<<uint(i)) | uint32(1<<uint(j))
						c06CheckKey(uint64(v), c.MaxN, c, o)
						c06CheckKey(uint64(^v), c.MaxN, c, o)
						n += 2
					}
				}
				o.Eval(n * int64(c.MaxN))
				o.DistinctCount(n)
			}
			if len(o.Samples) < 2 {
				o.Sample(map[string]any{"part": "jump", "case": c, "example": fmt.Sprintf("jump(0xDEADBEEF, n=1..8) = %v", func() []int32 {
					var v []int32
					for n := int32(1); n <= 8; n++ {
						v = append(v, loadbalancer.VerifJumpHash(0xDEADBEEF, n))
					}
					return v
				}())})
			}
		}).Finish(func(e *vh.Env, o *vh.Out) {
		if e.Thorough() {
			o.Exhaustive = true
			o.Note("thorough: all 2^32 key values the strategy can produce x pool sizes 1..32 enumerated")
		}
	})
}

// ---------------------------------------------------------------- end-to-end affinity

type c06Aff struct {
	Strategy string `json:"strategy"`
	N        int    `json:"n"`
	Round    int    `json:"round"`
	Sockets  bool   `json:"sockets"`
}

var c06Addrs = []string{
	"10.1.2.3", "192.168.0.1", "8.8.8.8", "255.255.255.255", "0.0.0.0", "2001:db8::1", "::1", "fe80::1%eth0",
	"::ffff:10.0.0.1", "not-an-ip", "a", "unknown", "[2001:db8::2]", "10.1.2.3:5555", strings.Repeat("9", 300),
	"1.1.1.1", "01.01.01.01", "localhost", "_", "%", "é", "10.0.0.256", "-", "1",
}

func c06Attribution(xff, xri, remote string) string {
	// the documented attribution: first X-Forwarded-For element, else X-Real-IP, else the peer's host
	if xff != "" {
		first := xff
		if i := strings.IndexByte(xff, ','); i >= 0 {
			first = xff[:i]
		}
		return strings.TrimSpace(first)
	}
	if xri != "" {
		return strings.TrimSpace(xri)
	}
	return remote
}

func init() {
	vh.AddPart("C06", "affinity", "plain", vh.Opts{Shards: 8, ShardsThorough: 16, Procs: 2, TimeoutS: 200},
		func(e *vh.Env) []c06Aff {
			var cs []c06Aff
			rounds := e.Pick(1, 4)
			for _, st := range []string{"ip_hash", "ip_hash_consistent"} {
				for _, n := range []int{1, 2, 3, 5, 8, 13, 16} {
					for r := 0; r < rounds; r++ {
						cs = append(cs, c06Aff{Strategy: st, N: n, Round: r, Sockets: n == 3 && r == 0})
					}
				}
			}
			return cs
		},
		func(e *vh.Env, c c06Aff, o *vh.Out) {
			o.Need("groups_checked", "group_members_served")
			bes := newBackends(c.N)
			defer closeBackends(bes)
			cfg := baseConfig(c.Strategy, bes)
			if (c.N+c.Round)%2 == 1 {
				// the other features that look at the client address are on as well (limits out of reach)
				cfg.RateLimit = config.RateLimitConfig{Enabled: true, MaxTokens: 1000000, RefillRate: 1}
				cfg.Logging.RequestID.Enabled = true
			}
			sys, err := startSys(cfg, bes, c.Sockets)
			if err != nil {
				o.Inconcl("startSys: %v", err)
				return
			}
			defer sys.Close()
			rnd := e.Rand("c06aff", c.Strategy, c.N, c.Round)
			addrs := append([]string(nil), c06Addrs...)
			for i := 0; i < e.Pick(40, 200); i++ {
				switch rnd.Intn(3) {
				case 0:
					addrs = append(addrs, fmt.Sprintf("%d.%d.%d.%d", rnd.Intn(256), rnd.Intn(256), rnd.Intn(256), rnd.Intn(256)))
				case 1:
					addrs = append(addrs, fmt.Sprintf("2001:db8:%x::%x", rnd.Intn(65536), rnd.Intn(65536)))
				default:
					b := make([]byte, 1+rnd.Intn(12))
					for k := range b {
						b[k] = "abcxyz0189.:-_/"[rnd.Intn(15)]
					}
					addrs = append(addrs, string(b))
				}
			}
			valid := map[string]bool{}
			for _, b := range bes {
				valid[b.Name] = true
			}
			paths := []string{"/", "/a/b?x=1", "/long/" + strings.Repeat("p", 200), "/%2F%20?q=%00", "/api/v1/items/42"}
			methods := []string{"GET", "POST", "PUT", "DELETE", "OPTIONS"}
			type member struct {
				Via, XFF, XRI, Remote, Path, Method string
			}
			for gi, a := range addrs {
				// members of the group: all attributed to address a
				var ms []member
				host := a
				if strings.Contains(a, ":") {
					host = "[" + a + "]"
				}
				ph, _, perr := net.SplitHostPort(host + ":40000")
				peerOK := perr == nil && ph == a // a can be a connection's peer host
				other := fmt.Sprintf("172.16.%d.%d", rnd.Intn(256), rnd.Intn(256))
				ms = append(ms,
					member{"xff", a, "", other + ":1234", "", ""},
					member{"xff-list", a + ", " + other, "", other + ":80", "", ""},
					member{"xff-list-nospace", a + "," + other + ",10.9.9.9", "", "", "", ""},
					member{"xff-list-ows", a + " , " + other, other, "", "", ""},
					member{"xff+xri", a, other, "", "", ""},
					member{"xri", "", a, other + ":9", "", ""},
					member{"xri-list", "", a + ", " + other, "", "", ""},
				)
				if peerOK {
					ms = append(ms, member{"peer", "", "", host + ":40000", "", ""}, member{"peer-port2", "", "", host + ":40001", "", ""})
				}
				first := ""
				firstM := member{}
				for mi := range ms {
					m := &ms[mi]
					m.Path = paths[rnd.Intn(len(paths))]
					m.Method = methods[rnd.Intn(len(methods))]
					var hdr [][2]string
					if m.XFF != "" {
						hdr = append(hdr, [2]string{"X-Forwarded-For", m.XFF})
					}
					if m.XRI != "" {
						hdr = append(hdr, [2]string{"X-Real-IP", m.XRI})
					}
					hdr = append(hdr, [2]string{"X-Noise", fmt.Sprint(rnd.Int())})
					remote := m.Remote
					if remote == "" {
						remote = fmt.Sprintf("203.0.113.%d:%d", rnd.Intn(256), 1024+rnd.Intn(60000))
					}
					// interleave traffic from another client
					if rnd.Intn(2) == 0 {
						sys.call("GET", "/noise", fmt.Sprintf("198.51.100.%d:5", rnd.Intn(256)), nil, nil)
					}
					// ... and read-only observation by an operator: listings and metrics move nobody
					switch rnd.Intn(6) {
					case 0:
						listBackends(sys.admin())
						o.Obs("listings_between_requests", 1)
					case 1:
						sys.metricsJSON()
						sys.healthJSON()
					}
					var w *httptest.ResponseRecorder
					func() {
						defer func() {
							if r := recover(); r != nil {
								o.Viol("C06|affinity|panic", fmt.Sprintf("request with client address %q (%s) panicked: %v", a, m.Via, r), m)
							}
						}()
						w = sys.call(m.Method, m.Path, remote, hdr, nil)
					}()
					if w == nil {
						continue
					}
					o.Eval(1)
					by := servedBy(w)
					if w.Code != 200 || !valid[by] {
						o.Viol("C06|affinity|invalid-choice|"+c.Strategy, fmt.Sprintf("%s n=%d: client %q via %s got status %d from %q (all backends eligible)", c.Strategy, c.N, a, m.Via, w.Code, by), m)
						continue
					}
					o.Obs("group_members_served", 1)
					if first == "" {
						first, firstM = by, *m
					} else if by != first {
						o.Viol("C06|affinity|split|"+c.Strategy+"|"+firstM.Via+"/"+m.Via,
							fmt.Sprintf("%s n=%d: client address %q served by %s (%s) and by %s (%s) with an unchanged backend set", c.Strategy, c.N, a, first, firstM.Via, by, m.Via),
							map[string]any{"first": firstM, "second": m})
					}
				}
				o.Obs("groups_checked", 1)
				o.Distinct(fmt.Sprintf("%s|%d|%s", c.Strategy, c.N, a))
				if gi == 0 && c.N == 3 {
					o.Sample(map[string]any{"part": "affinity", "strategy": c.Strategy, "pool": c.N, "client": a, "members": ms, "served_by": first})
				}
			}
			if c.Sockets {
				// real peers: 127.0.0.1 and ::1 with varying source ports, raw client
				for _, host := range []string{"127.0.0.1"} {
					got := map[string]bool{}
					for k := 0; k < 6; k++ {
						rs := vh.Do(sys.Addr, vh.RawReq{Method: "GET", Target: paths[k%len(paths)], Headers: [][2]string{{"X-K", fmt.Sprint(k)}}})
						o.Eval(1)
						if rs.Status != 200 {
							o.Viol("C06|affinity|socket-status", fmt.Sprintf("loopback peer got %d %s", rs.Status, rs.Err), nil)
							continue
						}
						got[rs.Get1("X-Backend")] = true
					}
					if len(got) > 1 {
						o.Viol("C06|affinity|split|"+c.Strategy+"|socket", fmt.Sprintf("peer %s served by %d different backends across source ports", host, len(got)), got)
					}
					o.Obs("socket_groups", 1)
				}
			}
		})
}

// ---------------------------------------------------------------- valid choice under ejection + append history

type c06Pool struct {
	Kind     string `json:"kind"` // eject | append
	Strategy string `json:"strategy"`
	N        int    `json:"n"`
}

func hash32(s string) uint32 {
	h := fnv.New32a()
	h.Write([]byte(s))
	return h.Sum32()
}

func init() {
	vh.AddPart("C06", "pool", "plain", vh.Opts{Shards: 8, Procs: 2, TimeoutS: 240},
		func(e *vh.Env) []c06Pool {
			var cs []c06Pool
			for _, st := range []string{"ip_hash", "ip_hash_consistent"} {
				for n := 1; n <= e.Pick(5, 7); n++ {
					cs = append(cs, c06Pool{"eject", st, n})
				}
				cs = append(cs, c06Pool{"eject", st, 16})
			}
			cs = append(cs, c06Pool{"append", "ip_hash_consistent", 16})
			// the same while one / two of the older backends are ejected: appending still moves clients to the new backend only
			cs = append(cs, c06Pool{"append-ejected1", "ip_hash_consistent", 12}, c06Pool{"append-ejected2", "ip_hash_consistent", 12})
			return cs
		},
		func(e *vh.Env, c c06Pool, o *vh.Out) {
			o.Need("picks_checked")
			rnd := e.Rand("c06pool", c.Kind, c.Strategy, c.N)
			var clients []string
			clients = append(clients, c06Addrs...)
			for i := 0; i < e.Pick(300, 5000); i++ {
				clients = append(clients, fmt.Sprintf("%d.%d.%d.%d", rnd.Intn(256), rnd.Intn(256), rnd.Intn(256), rnd.Intn(256)))
			}
			pick := func(sys *Sys, cl string) (name string, ok bool) {
				r := httptest.NewRequest("GET", "/", nil)
				r.Header.Set("X-Forwarded-For", cl)
				defer func() {
					if rec := recover(); rec != nil {
						o.Viol("C06|pool|panic|"+c.Strategy, fmt.Sprintf("NextBackend panicked for client %q: %v", cl, rec), nil)
						name, ok = "", false
					}
				}()
				b := sys.LB.NextBackend(r)
				if b == nil {
					return "", true
				}
				return b.Name, true
			}
			if c.Kind == "eject" {
				cfg := baseConfig(c.Strategy, nil)
				for i := 0; i < c.N; i++ {
					// pure picking: no listener needed, only addresses
					cfg.Backends = append(cfg.Backends, config.BackendConfig{Name: fmt.Sprintf("b%d", i), Address: "http://127.0.0.1:9", Weight: 1})
				}
				sys, err := startSys(cfg, nil, false)
				if err != nil {
					o.Inconcl("startSys: %v", err)
					return
				}
				defer sys.Close()
				masks := 1 << uint(c.N)
				var maskList []int
				if c.N <= 7 {
					for m := 0; m < masks; m++ {
						maskList = append(maskList, m)
					}
				} else {
					for k := 0; k < 40; k++ {
						maskList = append(maskList, rnd.Intn(masks))
					}
					maskList = append(maskList, 0, masks-1, masks-2)
				}
				live := sys.LB.VerifBackends()
				for _, m := range maskList {
					// fresh balancer per mask keeps ejections independent
					for i, b := range live {
						b.Mutex.Lock()
						if m&(1<<uint(i)) != 0 {
							b.IsHealthy = false
							b.UnhealthyUntil = vhFar()
						} else {
							b.IsHealthy = true
						}
						b.Mutex.Unlock()
					}
					elig := map[string]bool{}
					for i, b := range live {
						if m&(1<<uint(i)) == 0 {
							elig[b.Name] = true
						}
					}
					for _, cl := range clients[:min(len(clients), 200)] {
						name, ok := pick(sys, cl)
						if !ok {
							continue
						}
						o.Eval(1)
						o.Obs("picks_checked", 1)
						if len(elig) == 0 {
							if name != "" {
								o.Viol("C06|pool|picked-ejected|"+c.Strategy, fmt.Sprintf("all %d backends ejected but %s was chosen", c.N, name), nil)
							}
							continue
						}
						if name == "" {
							o.Viol("C06|pool|nil-with-eligible|"+c.Strategy, fmt.Sprintf("n=%d ejected-mask=%b client %q: no backend chosen although %d are eligible", c.N, m, cl, len(elig)), nil)
						} else if !elig[name] {
							o.Viol("C06|pool|picked-ejected|"+c.Strategy, fmt.Sprintf("n=%d ejected-mask=%b client %q: chose ejected backend %s", c.N, m, cl, name), nil)
						}
						// same choice when asked again
						if name2, _ := pick(sys, cl); name2 != name {
							o.Viol("C06|pool|unstable|"+c.Strategy, fmt.Sprintf("client %q got %s then %s with unchanged eligible set", cl, name, name2), nil)
						}
					}
					o.Distinct(fmt.Sprintf("eject|%s|%d|%d", c.Strategy, c.N, m))
				}
				o.Sample(map[string]any{"part": "pool/eject", "strategy": c.Strategy, "n": c.N, "ejected_masks": len(maskList), "clients_per_mask": min(len(clients), 200)})
				return
			}
			// append history through the admin handler
			cfg := baseConfig(c.Strategy, nil)
			cfg.Backends = append(cfg.Backends, config.BackendConfig{Name: "b0", Address: "http://127.0.0.1:9", Weight: 1})
			start := 2
			if strings.HasPrefix(c.Kind, "append-ejected") {
				for i := 1; i < 5; i++ {
					cfg.Backends = append(cfg.Backends, config.BackendConfig{Name: fmt.Sprintf("b%d", i), Address: "http://127.0.0.1:9", Weight: 1})
				}
				start = 6
			}
			sys, err := startSys(cfg, nil, false)
			if err != nil {
				o.Inconcl("startSys: %v", err)
				return
			}
			defer sys.Close()
			if strings.HasPrefix(c.Kind, "append-ejected") {
				live := sys.LB.VerifBackends()
				sys.LB.MarkBackendUnhealthy(live[1], 1000*time.Hour)
				if c.Kind == "append-ejected2" {
					sys.LB.MarkBackendUnhealthy(live[3], 1000*time.Hour)
				}
				o.Obs("appends_with_ejected_members", 1)
			}
			adm := sys.admin()
			prev := map[string]string{}
			for _, cl := range clients {
				prev[cl], _ = pick(sys, cl)
			}
			for n := start; n <= c.N; n++ {
				name := fmt.Sprintf("b%d", n-1)
				w := adminDo(adm, "POST", "/v1/backends/add", "127.0.0.1:1", nil, fmt.Sprintf(`{"name":%q,"address":"http://127.0.0.1:9","weight":1}`, name))
				if w.Code != 201 {
					o.Inconcl("admin add returned %d", w.Code)
					return
				}
				moved := 0
				for _, cl := range clients {
					now, ok := pick(sys, cl)
					if !ok {
						continue
					}
					o.Eval(1)
					o.Obs("picks_checked", 1)
					if now != prev[cl] {
						moved++
						if now != name {
							o.Viol("C06|"+c.Kind+"|moved-to-old-backend", fmt.Sprintf("appending %s moved client %q from %s to %s", name, cl, prev[cl], now), map[string]any{"pool": n, "client": cl, "hash": hash32(cl)})
						}
					}
					prev[cl] = now
				}
				o.Obs("clients_moved_on_append", int64(moved))
				o.Distinct(fmt.Sprintf("append|%d", n))
			}
			o.Need("clients_moved_on_append")
			o.Sample(map[string]any{"part": "pool/append", "clients": len(clients), "grown_to": c.N})
		})
}

func min(a, b int) int {
	if a < b {
		return a
	}
	return b
}

// ---------------------------------------------------------------- affinity under concurrent traffic (real parallelism)

type c06Conc struct {
	Strategy string `json:"strategy"`
	N, G     int
	Round    int `json:"round"`
}

func init() {
	vh.AddPart("C06", "affinity-concurrent", "race", vh.Opts{Procs: 16, TimeoutS: 300, TimeoutSThorough: 1500},
		func(e *vh.Env) []c06Conc {
			var cs []c06Conc
			for _, st := range []string{"ip_hash", "ip_hash_consistent"} {
				for _, n := range []int{2, 5, 16} {
					for r := 0; r < e.Pick(2, 8); r++ {
						cs = append(cs, c06Conc{st, n, []int{4, 16, 64}[r%3], r})
					}
				}
			}
			return cs
		},
		func(e *vh.Env, c c06Conc, o *vh.Out) {
			o.Need("concurrent_picks")
			cfg := baseConfig(c.Strategy, nil)
			for i := 0; i < c.N; i++ {
				cfg.Backends = append(cfg.Backends, config.BackendConfig{Name: fmt.Sprintf("b%d", i), Address: "http://127.0.0.1:9", Weight: 1})
			}
			sys, err := startSys(cfg, nil, false)
			if err != nil {
				o.Inconcl("startSys: %v", err)
				return
			}
			defer sys.Close()
			pickFor := func(addr string, viaPeer bool) string {
				r := httptest.NewRequest("GET", "/c", nil)
				if viaPeer {
					r.RemoteAddr = addr + ":4000"
				} else {
					r.Header.Set("X-Forwarded-For", addr)
				}
				if b := sys.LB.NextBackend(r); b != nil {
					return b.Name
				}
				return ""
			}
			// the sequential mapping is the reference
			addrs := make([]string, c.G)
			want := make([]string, c.G)
			for g := range addrs {
				addrs[g] = fmt.Sprintf("10.%d.%d.%d", 20+c.Round, g/200, g%200+1)
				want[g] = pickFor(addrs[g], false)
			}
			var wg sync.WaitGroup
			bad := make([]string, c.G)
			per := e.Pick(3000, 10000)
			start := make(chan struct{})
			for g := 0; g < c.G; g++ {
				g := g
				wg.Add(1)
				go func() {
					defer wg.Done()
					<-start
					for i := 0; i < per; i++ {
						if got := pickFor(addrs[g], i%2 == 1); got != want[g] && bad[g] == "" {
							bad[g] = got
						}
					}
				}()
			}
			close(start)
			wg.Wait()
			o.Eval(1)
			o.Obs("concurrent_picks", int64(c.G*per))
			o.Distinct(vh.J(c))
			for g, b := range bad {
				if b != "" {
					o.Viol("C06|affinity|split-under-concurrency|"+c.Strategy, fmt.Sprintf("%s n=%d: with %d clients picking concurrently, client %s was sent to %s although it maps to %s (backend set unchanged)", c.Strategy, c.N, c.G, addrs[g], b, want[g]), nil)
					break
				}
			}
			if c.Round == 0 && c.N == 5 {
				o.Sample(map[string]any{"part": "affinity-concurrent", "case": c, "picks_per_client": per})
			}
		})
}
