package main

import (
	"crypto/tls"
	"fmt"
	"io"
	"net/http"
	"path/filepath"
	"strings"
	"time"

	"github.com/0xReLogic/Helios/internal/config"
	"github.com/0xReLogic/Helios/internal/plugins"
	vh "github.com/0xReLogic/Helios/internal/verifh"
)

// C14: size_limit bounds bodies and leaves everything within the bounds untouched.
// Every exchange is run against two otherwise identical stacks, one with the plugin and one
// without, and compared (differential oracle) plus the absolute bounds from the statement.

type c14Case struct {
	Setup string `json:"setup"` // A: plugin directly in front of the scripted handler ; B: in front of the real balancer
	L1    int    `json:"max_request_body"`
	L2    int    `json:"max_response_body"`
	Chain string `json:"chain"` // B: position among logging/headers: "S", "LS", "SL", "LSH", "HSL"
	Strat string `json:"strategy"`
	Batch int    `json:"batch"`
}

type c14Stack struct {
	addr  string
	close func()
}

func c14Serve(h http.Handler) *c14Stack {
	ln := vh.ListenLoopback()
	srv := &http.Server{Handler: h}
	go srv.Serve(ln)
	return &c14Stack{addr: ln.Addr().String(), close: func() { srv.Close() }}
}

func c14Chain(spec string, l1, l2 int, withLimit bool) config.PluginsConfig {
	pc := config.PluginsConfig{Enabled: true}
	for _, ch := range spec {
		switch ch {
		case 'S':
			if withLimit {
				pc.Chain = append(pc.Chain, config.PluginConfig{Name: "size_limit", Config: map[string]interface{}{"max_request_body": l1, "max_response_body": l2}})
			}
		case 'L':
			pc.Chain = append(pc.Chain, config.PluginConfig{Name: "logging"})
		case 'H':
			pc.Chain = append(pc.Chain, config.PluginConfig{Name: "headers", Config: map[string]interface{}{"set": map[string]interface{}{"X-App": "Helios"}, "request_set": map[string]interface{}{"X-From": "LB"}}})
		}
	}
	if len(pc.Chain) == 0 {
		pc.Enabled = false
	}
	return pc
}

// compositions of n into at most k positive parts (n small)
func compositions(n, k int) [][]int {
	if n == 0 {
		return [][]int{{}}
	}
	var out [][]int
	var rec func(rem int, cur []int)
	rec = func(rem int, cur []int) {
		if rem == 0 {
			out = append(out, append([]int(nil), cur...))
			return
		}
		if len(cur) == k {
			return
		}
		for p := 1; p <= rem; p++ {
			rec(rem-p, append(cur, p))
		}
	}
	rec(n, nil)
	return out
}

type c14Ex struct {
	Method  string      `json:"method"`
	ReqLen  int         `json:"req_len"`
	Chunked bool        `json:"chunked"`
	Script  vh.Script   `json:"script"`
	Writes  []int       `json:"writes"`
	Upgrade bool        `json:"upgrade,omitempty"`
	ReqHdr  [][2]string `json:"request_headers,omitempty"`
	Label   string      `json:"label"`
}

func c14Exchanges(e *vh.Env, c c14Case) []c14Ex {
	var xs []c14Ex
	mk := func(label string, method string, reqLen int, chunked bool, status int, writes []int, flushAt int, implicit bool, hdr [][2]string) {
		sc := vh.Script{Status: status, Headers: append([][2]string{{"Content-Type", "application/octet-stream"}}, hdr...), Seed: len(xs) + 1, Implicit: implicit}
		for i, w := range writes {
			if flushAt == i {
				sc.Steps = append(sc.Steps, vh.Step{Op: "flush"})
			}
			sc.Steps = append(sc.Steps, vh.Step{Op: "write", N: w})
		}
		if flushAt == len(writes) && flushAt >= 0 {
			sc.Steps = append(sc.Steps, vh.Step{Op: "flush"})
		}
		xs = append(xs, c14Ex{Method: method, ReqLen: reqLen, Chunked: chunked, Script: sc, Writes: writes, Label: label})
	}
	L1, L2 := c.L1, c.L2
	// request side
	for _, n := range []int{0, L1 - 1, L1, L1 + 1, 10 * L1, 3*L1 + 1} {
		if n < 0 {
			continue
		}
		for _, ch := range []bool{false, true} {
			mk(fmt.Sprintf("upload %d chunked=%v", n, ch), "POST", n, ch, 200, []int{5}, -1, false, nil)
			mk(fmt.Sprintf("upload %d chunked=%v PUT 201", n, ch), "PUT", n, ch, 201, nil, -1, false, nil)
		}
	}
	// uploads by a client that also offers a protocol upgrade (which the backend does not take up): bounded like any other
	for _, conn := range []string{"Upgrade", "keep-alive, Upgrade"} {
		for _, n := range []int{L1, L1 + 1, 10 * L1} {
			for _, ch := range []bool{false, true} {
				mk(fmt.Sprintf("upload %d chunked=%v with Connection: %s", n, ch, conn), "POST", n, ch, 200, []int{4}, -1, false, nil)
				xs[len(xs)-1].ReqHdr = [][2]string{{"Connection", conn}, {"Upgrade", "websocket"}}
			}
		}
	}
	for _, m := range []string{"GET", "DELETE", "OPTIONS", "PATCH"} {
		for _, n := range []int{L1, L1 + 1, 10 * L1} {
			for _, ch := range []bool{false, true} {
				mk(fmt.Sprintf("%s with a %d byte body chunked=%v", m, n, ch), m, n, ch, 200, []int{3}, -1, false, nil)
			}
		}
	}
	// response side: sizes and partitions
	for _, n := range []int{0, L2 - 1, L2, L2 + 1, 2 * L2, 10 * L2} {
		if n < 0 {
			continue
		}
		var parts [][]int
		if n <= 8 {
			parts = compositions(n, 4)
		} else {
			r := e.Rand("c14parts", c.Setup, c.L2, n, c.Batch)
			parts = [][]int{{n}}
			for k := 0; k < 4; k++ {
				a := 1 + r.Intn(n-1)
				parts = append(parts, []int{a, n - a})
				if n-a > 1 {
					b := 1 + r.Intn(n-a-1)
					parts = append(parts, []int{a, b, n - a - b})
				}
			}
			parts = append(parts, []int{L2, n - L2}, []int{n - 1, 1})
		}
		for _, p := range parts {
			ok := true
			for _, x := range p {
				if x <= 0 {
					ok = false
				}
			}
			if !ok {
				continue
			}
			for _, fl := range []int{-1, 0, 1} {
				if fl > len(p) {
					continue
				}
				mk(fmt.Sprintf("download %d writes=%v flush@%d", n, p, fl), "GET", 0, false, 200, p, fl, false, nil)
			}
			mk(fmt.Sprintf("download %d writes=%v implicit", n, p), "GET", 0, false, 200, p, -1, true, nil)
		}
	}
	// statuses with and without body, HEAD
	for _, st := range []int{200, 201, 202, 204, 206, 301, 302, 304, 400, 401, 404, 410, 500, 502, 503, 599, 600, 799, 999} {
		loc := [][2]string{}
		if st >= 300 && st < 400 && st != 304 {
			loc = [][2]string{{"Location", "/elsewhere"}}
		}
		mk(fmt.Sprintf("status %d no body", st), "GET", 0, false, st, nil, -1, false, loc)
		mk(fmt.Sprintf("status %d no body, flushed", st), "GET", 0, false, st, nil, 0, false, loc)
		if st != 204 && st != 304 {
			b := L2
			if b > 3 {
				b = 3
			}
			mk(fmt.Sprintf("status %d small body", st), "GET", 0, false, st, []int{b}, -1, false, loc)
		}
		mk(fmt.Sprintf("HEAD status %d", st), "HEAD", 0, false, st, nil, -1, false, loc)
	}
	// bodiless responses that declare a length above the response limit: nothing is sent, so nothing may be refused
	big := fmt.Sprint(10*L2 + 5)
	mk("HEAD with Content-Length above the limit", "HEAD", 0, false, 200, nil, -1, false, [][2]string{{"Content-Length", big}})
	mk("HEAD 404 with Content-Length above the limit", "HEAD", 0, false, 404, nil, -1, false, [][2]string{{"Content-Length", big}})
	mk("304 with Content-Length above the limit", "GET", 0, false, 304, nil, -1, false, [][2]string{{"Content-Length", big}, {"ETag", `"e"`}})
	mk("interim 103 then 204", "GET", 0, false, 204, nil, -1, false, nil)
	xs[len(xs)-1].Script.Interim = []vh.Interim{{Code: 103, Headers: [][2]string{{"Link", "</x>"}}}}
	mk("interim 103 then 404 body", "GET", 0, false, 404, []int{1}, -1, false, nil)
	xs[len(xs)-1].Script.Interim = []vh.Interim{{Code: 103, Headers: [][2]string{{"Link", "</y>"}}}}
	// websocket-style upgrades interleaved with bodiless responses (the writer wrapper sees a hijack)
	for i := 0; i < 6; i++ {
		xs = append(xs, c14Ex{Method: "GET", Upgrade: true, Label: "upgrade", Script: vh.Script{Raw: "HTTP/1.1 101 Switching Protocols\r\nUpgrade: websocket\r\nConnection: Upgrade\r\n\r\n"}})
		mk(fmt.Sprintf("after upgrade: 204 #%d", i), "GET", 0, false, 204, nil, -1, false, nil)
		mk(fmt.Sprintf("after upgrade: 302 #%d", i), "GET", 0, false, 302, nil, -1, false, [][2]string{{"Location", "/l"}})
	}
	return xs
}

func init() {
	vh.AddPart("C14", "differential", "sim", vh.Opts{Shards: 16, TimeoutS: 400, TimeoutSThorough: 2500},
		func(e *vh.Env) []c14Case {
			var cs []c14Case
			limits := [][2]int{{1, 1}, {2, 7}, {7, 2}, {4096, 4096}, {7, 4096}, {100000, 3}}
			for li, l := range limits {
				for b := 0; b < e.Pick(1, 4); b++ {
					cs = append(cs, c14Case{Setup: "A", L1: l[0], L2: l[1], Batch: b})
					for ci, ch := range []string{"S", "LS", "SL", "LSH", "HSL"} {
						if !e.Thorough() && (li+ci)%2 == 1 {
							continue
						}
						cs = append(cs, c14Case{Setup: "B", L1: l[0], L2: l[1], Chain: ch, Strat: allStrategies[(li+ci)%5], Batch: b})
					}
				}
			}
			return cs
		},
		func(e *vh.Env, c c14Case, o *vh.Out) {
			o.Need("exchanges", "within_limits_identical", "rejected_413_request", "response_limited", "bodiless_checked", "upgrades")
			be := vh.NewBackend("b0")
			defer be.Close()
			var plain, lim *c14Stack
			if c.Setup == "A" {
				h, err := plugins.BuildChain(c14Chain("S", c.L1, c.L2, true), be.Handler())
				if err != nil {
					o.Inconcl("BuildChain: %v", err)
					return
				}
				plain, lim = c14Serve(be.Handler()), c14Serve(h)
				defer plain.close()
				defer lim.close()
			} else {
				mkSys := func(with bool) (*Sys, error) {
					cfg := baseConfig(c.Strat, []*vh.Backend{be})
					cfg.Plugins = c14Chain(c.Chain, c.L1, c.L2, with)
					if (c.L1+c.L2+len(c.Chain))%2 == 0 {
						// with the balancer's optional features on (thresholds out of reach): what they do after a response
						// has been relayed must not show through a plugin that holds the header back
						cfg.CircuitBreaker = config.CircuitBreakerConfig{Enabled: true, FailureThreshold: 1000000, SuccessThreshold: 1, IntervalSeconds: 3600, TimeoutSeconds: 60}
						cfg.HealthChecks.Passive = config.PassiveHealthCheckConfig{Enabled: true, UnhealthyThreshold: 1000000, UnhealthyTimeout: 30}
						cfg.RateLimit = config.RateLimitConfig{Enabled: true, MaxTokens: 1000000, RefillRate: 1}
					}
					return startSys(cfg, []*vh.Backend{be}, true)
				}
				s1, err := mkSys(false)
				if err != nil {
					o.Inconcl("startSys: %v", err)
					return
				}
				defer s1.Close()
				s2, err := mkSys(true)
				if err != nil {
					o.Inconcl("startSys: %v", err)
					return
				}
				defer s2.Close()
				plain, lim = &c14Stack{addr: s1.Addr}, &c14Stack{addr: s2.Addr}
			}
			cname := fmt.Sprintf("setup %s chain=%q limits req=%d resp=%d", c.Setup, c.Chain, c.L1, c.L2)
			for xi, x := range c14Exchanges(e, c) {
				mkReq := func(xid string) vh.RawReq {
					rq := vh.RawReq{Method: x.Method, Target: "/c14", BodyLen: x.ReqLen, BodySeed: xi, Chunked: x.Chunked, ChunkSize: 1000, TimeoutMs: 30000, Instant: true,
						Headers: [][2]string{{vh.ScriptHeader, x.Script.Encode()}, {vh.XIDHeader, xid}}}
					if x.Upgrade {
						rq.Headers = append(rq.Headers, [2]string{"Connection", "Upgrade"}, [2]string{"Upgrade", "websocket"})
					}
					rq.Headers = append(rq.Headers, x.ReqHdr...)
					return rq
				}
				find := func(xid string) *vh.Arrival {
					for _, a := range be.Arrivals() {
						if a.XID == xid {
							a := a
							return &a
						}
					}
					return nil
				}
				pr := vh.Do(plain.addr, mkReq(fmt.Sprintf("p%d", xi)))
				lr := vh.Do(lim.addr, mkReq(fmt.Sprintf("l%d", xi)))
				pa, la := find(fmt.Sprintf("p%d", xi)), find(fmt.Sprintf("l%d", xi))
				be.Reset()
				o.Eval(1)
				o.Obs("exchanges", 1)
				o.Distinct(cname + "|" + x.Label)
				ctx := fmt.Sprintf("[%s] %s", cname, x.Label)
				viol := func(kind, detail string) {
					o.Viol("C14|"+kind, ctx+": "+detail, map[string]any{"exchange": x, "case": c})
				}
				if x.Upgrade {
					if lr.Status != pr.Status {
						viol("upgrade-status", fmt.Sprintf("upgrade answered %d without the plugin, %d with it", pr.Status, lr.Status))
					}
					o.Obs("upgrades", 1)
					continue
				}
				if pa == nil {
					o.Inconcl("reference exchange %q did not reach the backend", x.Label)
					continue
				}
				total := x.Script.TotalBody()
				declaredTooLarge := !x.Chunked && x.ReqLen > c.L1
				// ---- request side
				if declaredTooLarge {
					if lr.Status != 413 {
						viol("declared-too-large-not-413", fmt.Sprintf("declared length %d > limit %d but the answer was %d", x.ReqLen, c.L1, lr.Status))
					}
					if la != nil {
						viol("declared-too-large-forwarded", fmt.Sprintf("declared length %d > limit %d but the request reached the next handler/backend", x.ReqLen, c.L1))
					}
					o.Obs("rejected_413_request", 1)
					continue
				}
				if la != nil && la.BodyLen > c.L1 {
					viol("request-body-over-limit", fmt.Sprintf("the backend received %d request body bytes, the limit is %d (upload %d, chunked=%v)", la.BodyLen, c.L1, x.ReqLen, x.Chunked))
					continue
				}
				if x.ReqLen > c.L1 {
					o.Obs("chunked_over_limit_cut", 1)
					continue // over the limit without a declared length: only the bound is asserted
				}
				if la == nil {
					viol("within-limit-not-forwarded", fmt.Sprintf("request body of %d bytes (limit %d) never reached the backend; client got %d", x.ReqLen, c.L1, lr.Status))
					continue
				}
				if la.BodyLen != pa.BodyLen || la.BodyHash != pa.BodyHash {
					viol("request-body-changed", fmt.Sprintf("request body %d bytes -> %d bytes", pa.BodyLen, la.BodyLen))
				}
				// ---- response side
				if lr.BodyLen > c.L2 {
					viol("response-body-over-limit", fmt.Sprintf("the client received %d body bytes, the limit is %d", lr.BodyLen, c.L2))
					continue
				}
				if total > c.L2 && x.Method != "HEAD" {
					o.Obs("response_limited", 1)
					if !strings.HasPrefix(string(pr.Body), string(lr.Body)) && lr.Status != 413 {
						viol("response-not-a-prefix", "the limited response body is not a prefix of the backend's body")
					}
					// nothing had been sent when the first write already exceeds the limit (no flush before it): 413
					if c.Setup == "A" && len(x.Writes) > 0 && x.Writes[0] > c.L2 && (len(x.Script.Steps) == 0 || x.Script.Steps[0].Op != "flush") && lr.Status != 413 {
						viol("excess-before-first-byte-not-413", fmt.Sprintf("the first write (%d bytes) already exceeds the limit %d and nothing had been sent, but the status is %d", x.Writes[0], c.L2, lr.Status))
					}
					continue
				}
				// within both limits: identical to the exchange without the plugin
				if lr.Err != "" || pr.Err != "" {
					if lr.Err != pr.Err {
						viol("response-error", fmt.Sprintf("client error %q (without plugin: %q)", lr.Err, pr.Err))
					}
					continue
				}
				if lr.Status != pr.Status {
					viol(fmt.Sprintf("status-changed|%d->%d", pr.Status, lr.Status), fmt.Sprintf("status %d -> %d", pr.Status, lr.Status))
					continue
				}
				drop := map[string]bool{"date": true}
				if pr.BodyLen == 0 && x.Method != "HEAD" {
					// an empty body framed as "Content-Length: 0" or as an empty chunked body is the same content
					drop["content-length"] = true
				}
				if d := diffMulti(lowerMulti(pr.Headers, drop), lowerMulti(lr.Headers, drop)); d != "" {
					viol("headers-changed|"+sigOf(d), "response headers: "+d)
				}
				if lr.BodyLen != pr.BodyLen || lr.BodyHash != pr.BodyHash {
					viol("body-changed", fmt.Sprintf("response body %d bytes -> %d bytes", pr.BodyLen, lr.BodyLen))
				}
				if len(lr.Interim) != len(pr.Interim) {
					viol("interim-changed", fmt.Sprintf("%d interim responses -> %d", len(pr.Interim), len(lr.Interim)))
				}
				o.Obs("within_limits_identical", 1)
				if total == 0 || x.Method == "HEAD" {
					o.Obs("bodiless_checked", 1)
				}
				if xi == 40 && c.Batch == 0 && c.Setup == "A" && c.L1 == 2 {
					o.Sample(map[string]any{"part": "differential", "case": c, "exchange": x, "without_plugin": map[string]any{"status": pr.Status, "body_len": pr.BodyLen}, "with_plugin": map[string]any{"status": lr.Status, "body_len": lr.BodyLen}})
				}
			}
		})
}

// ---- HTTP/2 front end (TLS): uploads without a declared length arrive as DATA frames, not as chunked encoding

type c14H2 struct {
	L1    int    `json:"max_request_body"`
	Chain string `json:"chain"`
	Strat string `json:"strategy"`
}

type unknownLen struct{ r *strings.Reader }

func (u unknownLen) Read(p []byte) (int, error) { return u.r.Read(p) }

func init() {
	vh.AddPart("C14", "http2", "plain", vh.Opts{Shards: 4, Procs: 4, TimeoutS: 300},
		func(e *vh.Env) []c14H2 {
			var cs []c14H2
			for i, l := range []int{1, 7, 4096, 100000} {
				for j, ch := range []string{"S", "LS", "HSL"} {
					cs = append(cs, c14H2{l, ch, allStrategies[(i+j)%5]})
				}
			}
			return cs
		},
		func(e *vh.Env, c c14H2, o *vh.Out) {
			o.Need("h2_exchanges", "h2_over_limit_cut", "h2_within_limit_ok")
			be := vh.NewBackend("b0")
			defer be.Close()
			cfg := baseConfig(c.Strat, []*vh.Backend{be})
			cfg.Plugins = c14Chain(c.Chain, c.L1, 1<<20, true)
			cfg.Server.TLS = config.TLSConfig{Enabled: true, CertFile: filepath.Join(e.RepoDir, "certs", "cert.pem"), KeyFile: filepath.Join(e.RepoDir, "certs", "key.pem")}
			sys, err := startSys(cfg, []*vh.Backend{be}, true)
			if err != nil {
				o.Inconcl("startSys: %v", err)
				return
			}
			defer sys.Close()
			cl := &http.Client{Timeout: 20 * time.Second, Transport: &http.Transport{TLSClientConfig: &tls.Config{InsecureSkipVerify: true}, ForceAttemptHTTP2: true}}
			for _, n := range []int{0, c.L1 - 1, c.L1, c.L1 + 1, 3*c.L1 + 1, 10 * c.L1} {
				if n < 0 {
					continue
				}
				for _, declared := range []bool{true, false} {
					for _, method := range []string{"POST", "PUT", "DELETE"} {
						body := strings.Repeat("z", n)
						var rd io.Reader = strings.NewReader(body)
						if !declared {
							rd = unknownLen{strings.NewReader(body)}
						}
						be.Reset()
						xid := fmt.Sprintf("h2-%d-%v-%s", n, declared, method)
						req, _ := http.NewRequest(method, "https://"+sys.Addr+"/h2", rd)
						req.Header.Set(vh.XIDHeader, xid)
						resp, err := cl.Do(req)
						o.Eval(1)
						o.Obs("h2_exchanges", 1)
						o.Distinct(fmt.Sprintf("%v|%s", c, xid))
						ctx := fmt.Sprintf("[http2 chain=%q limit=%d] %s upload of %d bytes declared=%v", c.Chain, c.L1, method, n, declared)
						status, proto := 0, ""
						if err == nil {
							status, proto = resp.StatusCode, resp.Proto
							io.Copy(io.Discard, resp.Body)
							resp.Body.Close()
							if proto != "HTTP/2.0" {
								o.Inconcl("%s: negotiated %s instead of HTTP/2", ctx, proto)
								continue
							}
						}
						vh.Settle()
						var arr *vh.Arrival
						for _, a := range be.Arrivals() {
							if a.XID == xid {
								a := a
								arr = &a
							}
						}
						if arr != nil && arr.BodyLen > c.L1 {
							o.Viol("C14|h2|request-body-over-limit", fmt.Sprintf("%s: the backend received %d body bytes", ctx, arr.BodyLen), nil)
							return
						}
						switch {
						case n > c.L1 && declared && n > 0:
							if status != 413 || arr != nil {
								o.Viol("C14|h2|declared-too-large", fmt.Sprintf("%s: status %d, reached backend=%v", ctx, status, arr != nil), nil)
								return
							}
							o.Obs("h2_over_limit_cut", 1)
						case n > c.L1:
							o.Obs("h2_over_limit_cut", 1)
						default:
							if err != nil || status != 200 || arr == nil || arr.BodyLen != n {
								got := -1
								if arr != nil {
									got = arr.BodyLen
								}
								o.Viol("C14|h2|within-limit-changed", fmt.Sprintf("%s: err=%v status=%d backend got %d bytes", ctx, err, status, got), nil)
								return
							}
							o.Obs("h2_within_limit_ok", 1)
						}
					}
				}
			}
			if c.L1 == 7 && c.Chain == "S" {
				o.Sample(map[string]any{"part": "http2", "case": c, "uploads": "0, L-1, L, L+1, 3L+1, 10L bytes, with and without a declared length, POST/PUT/DELETE over HTTP/2 (TLS, repository test certificate)"})
			}
		})
}
