package main

import (
	"fmt"
	"strconv"
	"strings"

	"github.com/0xReLogic/Helios/internal/config"
	"github.com/0xReLogic/Helios/internal/plugins"
	vh "github.com/0xReLogic/Helios/internal/verifh"
)

// C15: what the client decodes is exactly what the backend sent; compression only under the stated conditions.

const c15Cap = 10 * 1024 * 1024

type c15Case struct {
	Setup   string `json:"setup"` // A handler level, B through the balancer
	Level   int    `json:"level"`
	MinSize int    `json:"min_size"`
	Chain   string `json:"chain"` // G LG GL GH HG SG GS
	Strat   string `json:"strategy"`
	Big     bool   `json:"big"` // include bodies around the 10 MiB buffering cap
	Batch   int    `json:"batch"`
}

var c15Types = []string{"application/json", "text/"}

func c15Chain(spec string, c c15Case, withGzip bool) config.PluginsConfig {
	pc := config.PluginsConfig{Enabled: true}
	for _, ch := range spec {
		switch ch {
		case 'G':
			if withGzip {
				pc.Chain = append(pc.Chain, config.PluginConfig{Name: "gzip", Config: map[string]interface{}{"level": c.Level, "min_size": c.MinSize, "content_types": []interface{}{"application/json", "text/"}}})
			}
		case 'L':
			pc.Chain = append(pc.Chain, config.PluginConfig{Name: "logging"})
		case 'H':
			pc.Chain = append(pc.Chain, config.PluginConfig{Name: "headers", Config: map[string]interface{}{"set": map[string]interface{}{"X-App": "Helios"}}})
		case 'S':
			pc.Chain = append(pc.Chain, config.PluginConfig{Name: "size_limit", Config: map[string]interface{}{"max_request_body": 1 << 20, "max_response_body": 64 << 20}})
		}
	}
	if len(pc.Chain) == 0 {
		pc.Enabled = false
	}
	return pc
}

// offeredGzip: does the Accept-Encoding value list gzip (case-insensitively, q != 0)?
func offeredGzip(ae string) bool {
	for _, part := range strings.Split(ae, ",") {
		f := strings.Split(part, ";")
		if !strings.EqualFold(strings.TrimSpace(f[0]), "gzip") {
			continue
		}
		q := 1.0
		for _, p := range f[1:] {
			p = strings.TrimSpace(p)
			if strings.HasPrefix(strings.ToLower(p), "q=") {
				if v, err := strconv.ParseFloat(p[2:], 64); err == nil {
					q = v
				}
			}
		}
		if q > 0 {
			return true
		}
	}
	return false
}

type c15Ex struct {
	Method string    `json:"method"`
	AE     string    `json:"accept_encoding"`
	HasAE  bool      `json:"has_ae"`
	Script vh.Script `json:"script"`
	Label  string    `json:"label"`
}

func c15Exchanges(e *vh.Env, c c15Case) []c15Ex {
	var xs []c15Ex
	aes := []struct {
		v   string
		has bool
	}{{"", false}, {"gzip", true}, {"gzip, br", true}, {"br;q=1, gzip", true}, {"gzip;q=0", true}, {"GZIP", true}, {"*", true}, {"identity", true}, {"gzip;q=0.5", true}, {"deflate, gzip ,br", true}, {"", true}, {"br", true}, {"x-gzip", true}}
	cts := []string{"application/json", "application/json; charset=utf-8", "text/html", "text/plain; charset=utf-8", "text/event-stream", "application/octet-stream", "image/png", "", "Application/JSON", "application/javascript"}
	m := c.MinSize
	sizes := []int{0, 1, m - 1, m, m + 1, 2 * m, 5000, 70000}
	add := func(label, method, ae string, has bool, sc vh.Script) {
		xs = append(xs, c15Ex{Method: method, AE: ae, HasAE: has, Script: sc, Label: label})
	}
	body := func(ct string, n int, compressible bool, framing string, writes int) vh.Script {
		sc := vh.Script{Status: 200, Framing: framing, Compressible: compressible, Seed: n + len(ct)}
		if ct != "" {
			sc.Headers = [][2]string{{"Content-Type", ct}}
		} else {
			sc.Headers = [][2]string{{"Content-Type", ""}} // suppress sniffing
		}
		if writes <= 1 || n < writes {
			if n > 0 {
				sc.Steps = []vh.Step{{Op: "write", N: n}}
			}
		} else {
			per := n / writes
			for i := 0; i < writes-1; i++ {
				sc.Steps = append(sc.Steps, vh.Step{Op: "write", N: per})
			}
			sc.Steps = append(sc.Steps, vh.Step{Op: "write", N: n - per*(writes-1)})
		}
		return sc
	}
	// Accept-Encoding spellings x sizes, JSON
	for _, ae := range aes {
		for _, n := range sizes {
			if n < 0 {
				continue
			}
			add(fmt.Sprintf("ae=%q has=%v json %d", ae.v, ae.has, n), "GET", ae.v, ae.has, body("application/json", n, true, "cl", 1))
		}
	}
	// content types
	for _, ct := range cts {
		for _, n := range []int{m + 10, 3000} {
			add(fmt.Sprintf("ct=%q %d", ct, n), "GET", "gzip", true, body(ct, n, true, "cl", 1))
			add(fmt.Sprintf("ct=%q %d chunked 3 writes", ct, n), "GET", "gzip", true, body(ct, n, true, "chunked", 3))
		}
	}
	// incompressible payloads, framings, partitions, implicit header
	for _, n := range []int{m, m + 1, 4096, 40000} {
		add(fmt.Sprintf("random payload %d", n), "GET", "gzip", true, body("application/json", n, false, "cl", 1))
		add(fmt.Sprintf("random payload %d chunked", n), "GET", "gzip, deflate", true, body("text/plain", n, false, "chunked", 4))
		sc := body("application/json", n, true, "", 2)
		sc.Implicit = true
		add(fmt.Sprintf("implicit WriteHeader %d", n), "GET", "gzip", true, sc)
		sc2 := body("application/json", n, true, "chunked", 2)
		sc2.Steps = append([]vh.Step{{Op: "flush"}}, sc2.Steps...)
		add(fmt.Sprintf("flush before body %d", n), "GET", "gzip", true, sc2)
	}
	// already encoded by the backend
	for _, n := range []int{m + 100, 3000} {
		sc := body("application/json", n, true, "", 1)
		sc.Gzip = true
		sc.Headers = append(sc.Headers, [2]string{"Content-Encoding", "gzip"})
		add(fmt.Sprintf("backend already gzip %d", n), "GET", "gzip", true, sc)
		sc2 := body("application/json", n, false, "cl", 1)
		sc2.Headers = append(sc2.Headers, [2]string{"Content-Encoding", "br"})
		add(fmt.Sprintf("backend says br %d", n), "GET", "gzip, br", true, sc2)
		// a resource that is itself a gzip file, served without Content-Encoding under a matching content type: whatever
		// the plugin does, decoding what the client receives gives those bytes back
		gzfile := body("application/json", n, true, "cl", 1)
		gzfile.Gzip = true
		add(fmt.Sprintf("gzip file as the resource itself %d", n), "GET", "gzip", true, gzfile)
		gzfile2 := body("text/plain", n, true, "chunked", 2)
		gzfile2.Gzip = true
		add(fmt.Sprintf("gzip file as the resource itself %d chunked", n), "GET", "gzip, br", true, gzfile2)
		// a client that sends no Accept-Encoding at all gets the backend's encoded bytes as they are
		add(fmt.Sprintf("backend already gzip %d, no Accept-Encoding", n), "GET", "", false, sc)
		add(fmt.Sprintf("backend says br %d, Accept-Encoding: identity", n), "GET", "identity", true, sc2)
		// the same without an explicit WriteHeader (reaches the plugin as such at handler level)
		sc3, sc4 := sc, sc2
		sc3.Implicit, sc4.Implicit = true, true
		sc4.Framing = ""
		add(fmt.Sprintf("backend already gzip %d implicit WriteHeader", n), "GET", "gzip", true, sc3)
		add(fmt.Sprintf("backend says br %d implicit WriteHeader", n), "GET", "gzip, br", true, sc4)
	}
	// statuses and bodiless
	for _, st := range []int{201, 204, 301, 304, 404, 500} {
		sc := body("application/json", 0, true, "", 1)
		sc.Status = st
		add(fmt.Sprintf("status %d no body", st), "GET", "gzip", true, sc)
		if st != 204 && st != 304 {
			sc2 := body("application/json", 3000, true, "cl", 1)
			sc2.Status = st
			add(fmt.Sprintf("status %d json 3000", st), "GET", "gzip", true, sc2)
		}
	}
	h := body("application/json", 0, true, "", 1)
	h.Headers = append(h.Headers, [2]string{"Content-Length", "3000"})
	add("HEAD with length", "HEAD", "gzip", true, h)
	i1 := body("application/json", 3000, true, "cl", 1)
	i1.Interim = []vh.Interim{{Code: 103, Headers: [][2]string{{"Link", "</x>"}}}}
	i1.Status = 404
	add("103 then 404 json", "GET", "gzip", true, i1)
	add("upgrade", "GET", "gzip", true, vh.Script{Raw: "HTTP/1.1 101 Switching Protocols\r\nUpgrade: websocket\r\nConnection: Upgrade\r\n\r\n"})
	// aborted responses (the backend cuts the body while the plugin is buffering) interleaved with normal ones:
	// nothing of an aborted exchange may leak into a later response
	var mixed []c15Ex
	for i, x := range xs {
		mixed = append(mixed, x)
		if i%9 == 4 {
			ab := vh.Script{Status: 200, Headers: [][2]string{{"Content-Type", "application/json"}}, Framing: "cl", Declared: 9000, Compressible: true, Seed: 7000 + i,
				Steps: []vh.Step{{Op: "write", N: 2500}, {Op: "flush"}, {Op: "closeconn"}}}
			mixed = append(mixed, c15Ex{Method: "GET", AE: "gzip", HasAE: true, Script: ab, Label: fmt.Sprintf("aborted body #%d", i)})
			mixed = append(mixed, c15Ex{Method: "GET", AE: "gzip", HasAE: true, Script: body("application/json", 700+i, true, "cl", 1), Label: fmt.Sprintf("json after abort #%d", i)})
			mixed = append(mixed, c15Ex{Method: "GET", AE: "", HasAE: false, Script: body("application/json", 600+i, true, "chunked", 2), Label: fmt.Sprintf("identity after abort #%d", i)})
		}
	}
	xs = mixed
	if c.Big {
		for _, n := range []int{c15Cap - 1, c15Cap, c15Cap + 1, c15Cap + 200000} {
			add(fmt.Sprintf("near cap %d one write", n), "GET", "gzip", true, body("application/json", n, true, "cl", 1))
			add(fmt.Sprintf("near cap %d chunked 40 writes", n), "GET", "gzip", true, body("application/json", n, true, "chunked", 40))
		}
		for _, st := range []int{206, 404, 500} {
			sc := body("application/json", c15Cap+100000, true, "chunked", 30)
			sc.Status = st
			add(fmt.Sprintf("near cap status %d chunked 30 writes", st), "GET", "gzip", true, sc)
		}
		one := body("application/json", c15Cap+5, true, "cl", 1)
		one.Status = 201
		add("near cap status 201 one write", "GET", "gzip", true, one)
	}
	return xs
}

func init() {
	vh.AddPart("C15", "differential", "sim", vh.Opts{Shards: 16, TimeoutS: 500, TimeoutSThorough: 2500},
		func(e *vh.Env) []c15Case {
			var cs []c15Case
			i := 0
			for _, setup := range []string{"A", "B"} {
				for _, level := range []int{-1, 0, 1, 5, 6, 9} {
					for _, ms := range []int{1, 64, 1024} {
						chains := []string{"G", "LG", "GL", "GH", "HG", "SG", "GS"}
						if setup == "A" {
							chains = []string{"G"}
						}
						for _, ch := range chains {
							i++
							if !e.Thorough() && setup == "B" && i%3 != 0 {
								continue
							}
							cs = append(cs, c15Case{Setup: setup, Level: level, MinSize: ms, Chain: ch, Strat: allStrategies[i%5], Big: i%7 == 0 || (e.Thorough() && i%2 == 0)})
						}
					}
				}
			}
			for _, level := range []int{2, 3, 4, 7, 8} {
				cs = append(cs, c15Case{Setup: "B", Level: level, MinSize: 64, Chain: "G", Strat: "round_robin"})
			}
			cs = append(cs, c15Case{Setup: "B", Level: 5, MinSize: 1024, Chain: "G", Strat: "round_robin", Big: true}, c15Case{Setup: "A", Level: 5, MinSize: 1024, Chain: "G", Big: true})
			return cs
		},
		func(e *vh.Env, c c15Case, o *vh.Out) {
			o.Need("exchanges", "compressed_responses", "identity_responses", "already_encoded_checked", "aborted_exchanges")
			if c.Big {
				o.Need("near_cap_checked")
			}
			be := vh.NewBackend("b0")
			defer be.Close()
			var plain, gz *c14Stack
			if c.Setup == "A" {
				h, err := plugins.BuildChain(c15Chain("G", c, true), be.Handler())
				if err != nil {
					o.Inconcl("BuildChain: %v", err)
					return
				}
				plain, gz = c14Serve(be.Handler()), c14Serve(h)
				defer plain.close()
				defer gz.close()
			} else {
				mk := func(with bool) (*Sys, error) {
					cfg := baseConfig(c.Strat, []*vh.Backend{be})
					cfg.Plugins = c15Chain(c.Chain, c, with)
					cfg.Server.Timeouts = config.TimeoutConfig{Read: 60, Write: 60, BackendRead: 60}
					if (c.Level+c.MinSize+len(c.Chain))%2 == 0 {
						// the balancer's optional features on, thresholds out of reach
						cfg.CircuitBreaker = config.CircuitBreakerConfig{Enabled: true, FailureThreshold: 1000000, SuccessThreshold: 1, IntervalSeconds: 3600, TimeoutSeconds: 60}
						cfg.HealthChecks.Passive = config.PassiveHealthCheckConfig{Enabled: true, UnhealthyThreshold: 1000000, UnhealthyTimeout: 30}
						cfg.RateLimit = config.RateLimitConfig{Enabled: true, MaxTokens: 1000000, RefillRate: 1}
					}
					return startSys(cfg, []*vh.Backend{be}, true)
				}
				s1, err := mk(false)
				if err != nil {
					o.Inconcl("startSys: %v", err)
					return
				}
				defer s1.Close()
				s2, err := mk(true)
				if err != nil {
					o.Inconcl("startSys: %v", err)
					return
				}
				defer s2.Close()
				plain, gz = &c14Stack{addr: s1.Addr}, &c14Stack{addr: s2.Addr}
			}
			cname := fmt.Sprintf("setup %s chain=%q level=%d min_size=%d", c.Setup, c.Chain, c.Level, c.MinSize)
			for xi, x := range c15Exchanges(e, c) {
				mkReq := func() vh.RawReq {
					rq := vh.RawReq{Method: x.Method, Target: "/c15", TimeoutMs: 60000, Instant: true, Headers: [][2]string{{vh.ScriptHeader, x.Script.Encode()}}}
					if x.HasAE {
						rq.Headers = append(rq.Headers, [2]string{"Accept-Encoding", x.AE})
					}
					if x.Label == "upgrade" {
						rq.Headers = append(rq.Headers, [2]string{"Connection", "Upgrade"}, [2]string{"Upgrade", "websocket"})
					}
					return rq
				}
				pr := vh.Do(plain.addr, mkReq())
				gr := vh.Do(gz.addr, mkReq())
				o.Eval(1)
				o.Obs("exchanges", 1)
				o.Distinct(cname + "|" + x.Label)
				ctx := fmt.Sprintf("[%s] %s", cname, x.Label)
				viol := func(kind, detail string) {
					o.Viol("C15|"+kind, ctx+": "+detail, map[string]any{"exchange": x.Label, "case": c, "headers_received": gr.Headers})
				}
				if strings.HasPrefix(x.Label, "aborted body") {
					// both stacks must fail this exchange on the client side; nothing else is asserted here
					if gr.Err == "" && gr.Complete && gr.Status == 200 && gr.BodyLen >= 9000 {
						viol("aborted-looks-complete", "the backend cut the body but the client received a complete response")
					}
					o.Obs("aborted_exchanges", 1)
					continue
				}
				if pr.Err != "" {
					o.Inconcl("reference exchange %q failed: %s", x.Label, pr.Err)
					continue
				}
				if gr.Err != "" {
					viol("client-error", fmt.Sprintf("client-side error %q (status %d, %d body bytes, Content-Length %q); without the plugin the exchange succeeds with %d bytes", gr.Err, gr.Status, gr.BodyLen, gr.Get1("Content-Length"), pr.BodyLen))
					continue
				}
				if gr.Status != pr.Status {
					viol("status", fmt.Sprintf("status %d -> %d", pr.Status, gr.Status))
					continue
				}
				if cl := gr.Get1("Content-Length"); cl != "" && x.Method != "HEAD" && gr.Framing == "cl" {
					if n, err := strconv.Atoi(cl); err != nil || n != gr.BodyLen {
						viol("content-length", fmt.Sprintf("Content-Length %q but %d body bytes on the wire", cl, gr.BodyLen))
					}
				}
				backendCE := pr.Get1("Content-Encoding")
				gotCE := gr.Get1("Content-Encoding")
				ct := pr.Get1("Content-Type")
				compressed := backendCE == "" && strings.EqualFold(gotCE, "gzip")
				if strings.HasPrefix(x.Label, "near cap") {
					o.Obs("near_cap_checked", 1)
				}
				if compressed {
					dec, err := vh.Gunzip(gr.Body)
					if err != nil {
						viol("undecodable", fmt.Sprintf("Content-Encoding: gzip but the %d body bytes are not a gzip stream: %v", gr.BodyLen, err))
						continue
					}
					if string(dec) != string(pr.Body) {
						viol("decoded-body-differs", fmt.Sprintf("decoding the %d received bytes gives %d bytes, the backend sent %d", gr.BodyLen, len(dec), pr.BodyLen))
						continue
					}
					// conditions for compression
					var why []string
					if !x.HasAE || !offeredGzip(x.AE) {
						why = append(why, fmt.Sprintf("client did not list gzip (Accept-Encoding %q present=%v)", x.AE, x.HasAE))
					}
					okType := false
					for _, p := range c15Types {
						if strings.HasPrefix(ct, p) {
							okType = true
						}
					}
					if !okType {
						why = append(why, fmt.Sprintf("content type %q matches no configured prefix", ct))
					}
					if pr.BodyLen < c.MinSize {
						why = append(why, fmt.Sprintf("body of %d bytes is below min_size %d", pr.BodyLen, c.MinSize))
					}
					if pr.BodyLen > c15Cap {
						why = append(why, "body above the buffering cap")
					}
					if len(why) > 0 {
						viol("compressed-against-conditions|"+strings.SplitN(why[0], " ", 3)[0]+" "+strings.SplitN(why[0], " ", 3)[1], "compressed although "+strings.Join(why, "; "))
					}
					o.Obs("compressed_responses", 1)
				} else {
					// delivered byte-identical, encoding headers untouched
					if gr.BodyLen != pr.BodyLen || gr.BodyHash != pr.BodyHash {
						viol("identity-body-differs", fmt.Sprintf("not compressed (Content-Encoding %q) but the body differs: backend %d bytes, client %d bytes", gotCE, pr.BodyLen, gr.BodyLen))
						continue
					}
					if gotCE != backendCE {
						viol("content-encoding-changed", fmt.Sprintf("Content-Encoding %q -> %q with an unchanged body", backendCE, gotCE))
					}
					if pr.Framing == "cl" && gr.Framing == "cl" && pr.Get1("Content-Length") != gr.Get1("Content-Length") {
						viol("identity-length-changed", fmt.Sprintf("Content-Length %s -> %s", pr.Get1("Content-Length"), gr.Get1("Content-Length")))
					}
					if x.Method == "HEAD" && pr.Get1("Content-Length") != gr.Get1("Content-Length") {
						viol("head-length-changed", fmt.Sprintf("HEAD Content-Length %q -> %q", pr.Get1("Content-Length"), gr.Get1("Content-Length")))
					}
					o.Obs("identity_responses", 1)
					if backendCE != "" {
						o.Obs("already_encoded_checked", 1)
					}
				}
				drop := map[string]bool{"date": true, "content-length": true, "content-encoding": true, "vary": true} // a compressing hop may (should) add Vary: Accept-Encoding
				if d := diffMulti(lowerMulti(pr.Headers, drop), lowerMulti(gr.Headers, drop)); d != "" {
					viol("headers-changed|"+sigOf(d), "other response headers: "+d)
				}
				if len(gr.Interim) != len(pr.Interim) {
					viol("interim-changed", fmt.Sprintf("%d interim responses -> %d", len(pr.Interim), len(gr.Interim)))
				}
				if xi == 20 && c.Level == 5 && c.MinSize == 64 {
					o.Sample(map[string]any{"part": "differential", "case": c, "exchange": x.Label, "backend_bytes": pr.BodyLen, "wire_bytes": gr.BodyLen, "content_encoding": gotCE})
				}
			}
		})
}
