package main

import (
	"errors"
	"fmt"
	"strings"
	"time"

	"github.com/0xReLogic/Helios/internal/circuitbreaker"
	"github.com/0xReLogic/Helios/internal/config"
	vh "github.com/0xReLogic/Helios/internal/verifh"
)

// ------------------------------------------------------------ library level, sequential histories

type c07Seq struct {
	FT, ST, MR int
	Timing     string `json:"timing"` // A: interval 10s < timeout 30s ; B: interval 30s > timeout 10s
	Prefix     string `json:"prefix"` // first events
	Depth      int    `json:"depth"`
	Random     int    `json:"random,omitempty"` // >0: this many seeded sequences of length Depth instead of enumeration
}

var errFail = errors.New("scripted failure")

const c07Events = "SFPaIT" // success, failure, panic, advance<interval, advance>interval, advance>timeout

func c07Timing(tm string) (interval, timeout time.Duration, adv map[byte]time.Duration) {
	if tm == "A" {
		return 10 * time.Second, 30 * time.Second, map[byte]time.Duration{'a': 3 * time.Second, 'I': 11 * time.Second, 'T': 31 * time.Second}
	}
	// B: timeout shorter than interval
	return 30 * time.Second, 10 * time.Second, map[byte]time.Duration{'a': 3 * time.Second, 'T': 11 * time.Second, 'I': 31 * time.Second}
}

// execOnce runs one request event against the breaker and classifies the outcome.
func execOnce(cb *circuitbreaker.CircuitBreaker, ev byte) (o vh.Outcome, odd string) {
	ran := false
	var err error
	func() {
		defer func() {
			if r := recover(); r != nil {
				if ev != 'P' {
					odd = fmt.Sprintf("unexpected panic: %v", r)
				}
			} else if ev == 'P' && ran {
				odd = "panic of the protected function was swallowed"
			}
		}()
		err = cb.Execute(func() error {
			ran = true
			switch ev {
			case 'F':
				return errFail
			case 'P':
				panic("scripted panic")
			}
			return nil
		})
	}()
	if !ran {
		switch err {
		case circuitbreaker.ErrCircuitBreakerOpen:
			return vh.RejOpen, odd
		case circuitbreaker.ErrTooManyRequests:
			return vh.RejMany, odd
		default:
			return vh.RejOpen, fmt.Sprintf("function not run but error is %v", err)
		}
	}
	switch ev {
	case 'F':
		if err != errFail {
			odd = fmt.Sprintf("error of the protected function not returned: %v", err)
		}
		return vh.RanFail, odd
	case 'P':
		return vh.RanPanic, odd
	}
	if err != nil {
		odd = fmt.Sprintf("successful function but Execute returned %v", err)
	}
	return vh.RanOK, odd
}

// c07RunSeq runs one event sequence on a fresh breaker against the acceptor.
// Returns the breaker and model for follow-up (C08 recovery).
func c07RunSeq(c c07Seq, seq string, o *vh.Out, prop string) (*circuitbreaker.CircuitBreaker, *vh.BreakerModel, bool) {
	interval, timeout, _ := c07Timing(c.Timing)
	cb := circuitbreaker.NewCircuitBreaker(circuitbreaker.Settings{Name: "t", MaxRequests: uint32(c.MR), Interval: interval, Timeout: timeout, FailureThreshold: uint32(c.FT), SuccessThreshold: uint32(c.ST)})
	return c07RunSeqOn(cb, c, seq, o, prop)
}

// c07RunSeqOn runs the sequence on the given (fresh) breaker, whose settings must match c.
func c07RunSeqOn(cb *circuitbreaker.CircuitBreaker, c c07Seq, seq string, o *vh.Out, prop string) (*circuitbreaker.CircuitBreaker, *vh.BreakerModel, bool) {
	interval, timeout, adv := c07Timing(c.Timing)
	m := vh.NewBreakerModel(c.FT, c.ST, c.MR, interval, timeout)
	origin := time.Now()
	for i := 0; i < len(seq); i++ {
		ev := seq[i]
		if d, ok := adv[ev]; ok {
			time.Sleep(d)
			continue
		}
		t := time.Since(origin)
		out, odd := execOnce(cb, ev)
		st := cb.State().String()
		o.Obs("requests", 1)
		o.Obs("outcome_"+out.String(), 1)
		if odd != "" {
			o.Viol(prop+"|lib|odd|"+strings.SplitN(odd, ":", 2)[0], fmt.Sprintf("cfg ft=%d st=%d mr=%d timing=%s seq=%s step %d: %s", c.FT, c.ST, c.MR, c.Timing, seq, i, odd), map[string]any{"seq": seq, "step": i})
			return cb, m, false
		}
		if kind, desc := m.Step(t, out, st); kind != "" {
			o.Viol(fmt.Sprintf("%s|lib|%s", prop, kind), fmt.Sprintf("cfg ft=%d st=%d mr=%d timing=%s seq=%s step %d (%c -> %s, state %s): %s", c.FT, c.ST, c.MR, c.Timing, seq, i, ev, out, st, desc),
				map[string]any{"seq": seq, "step": i, "outcome": out.String(), "state": st})
			return cb, m, false
		}
	}
	return cb, m, true
}

func c07Enumerate(prefix string, depth int, f func(seq string)) {
	buf := make([]byte, depth)
	copy(buf, prefix)
	var rec func(i int)
	rec = func(i int) {
		if i == depth {
			f(string(buf))
			return
		}
		for k := 0; k < len(c07Events); k++ {
			// two advances in a row add nothing new except 'a','a' (still < interval): prune I/T after I/T
			if i > 0 && (c07Events[k] == 'I' || c07Events[k] == 'T') && (buf[i-1] == 'I' || buf[i-1] == 'T') {
				continue
			}
			buf[i] = c07Events[k]
			rec(i + 1)
		}
	}
	rec(len(prefix))
}

func c07SeqCases(e *vh.Env, depth int) []c07Seq {
	var cs []c07Seq
	for ft := 1; ft <= 3; ft++ {
		for st := 1; st <= 3; st++ {
			for mr := 1; mr <= 3; mr++ {
				for _, tm := range []string{"A", "B"} {
					for i := 0; i < len(c07Events); i++ {
						cs = append(cs, c07Seq{FT: ft, ST: st, MR: mr, Timing: tm, Prefix: string(c07Events[i]), Depth: depth})
					}
					cs = append(cs, c07Seq{FT: ft, ST: st, MR: mr, Timing: tm, Depth: depth + 6, Random: e.Pick(40, 400)})
				}
			}
		}
	}
	return cs
}

func init() {
	vh.AddPart("C07", "lib-seq", "sim", vh.Opts{Shards: 16, TimeoutS: 300, TimeoutSThorough: 3000},
		func(e *vh.Env) []c07Seq { return c07SeqCases(e, e.Pick(7, 9)) },
		func(e *vh.Env, c c07Seq, o *vh.Out) {
			o.Need("requests", "outcome_rej-open", "outcome_ran-ok", "outcome_ran-panic")
			states := map[string]struct{}{}
			run := func(seq string) {
				_, m, _ := c07RunSeq(c, seq, o, "C07")
				o.Eval(1)
				for k := range m.Visited {
					states[k] = struct{}{}
				}
			}
			if c.Random > 0 {
				r := e.Rand("c07seq", c.FT, c.ST, c.MR, c.Timing)
				for i := 0; i < c.Random; i++ {
					b := make([]byte, c.Depth)
					for k := range b {
						b[k] = c07Events[r.Intn(len(c07Events))]
					}
					run(string(b))
					o.Distinct(fmt.Sprintf("%d%d%d%s|%s", c.FT, c.ST, c.MR, c.Timing, b))
				}
			} else {
				n := int64(0)
				c07Enumerate(c.Prefix, c.Depth, func(seq string) { run(seq); n++ })
				o.DistinctCount(n) // enumerated sequences are distinct by construction
			}
			o.Obs("model_states_visited", int64(len(states)))
			if c.FT == 2 && c.ST == 2 && c.MR == 2 && c.Prefix == "F" {
				o.Sample(map[string]any{"part": "lib-seq", "config": c, "example_sequence": "FFTSS", "alphabet": "S=success F=failure P=panic a=+3s I=>interval T=>timeout"})
			}
		})
}

// ------------------------------------------------------------ library level, concurrent interleavings

type c07Conc struct {
	Kind   string `json:"kind"`   // boundary: actors arrive at the open->half-open boundary ; inside: one trial already admitted
	Actors string `json:"actors"` // per actor S or F
	MR, ST int
	Bound  int `json:"bound"` // preemption bound (-1: unbounded)
	Max    int `json:"max"`   // max schedules
}

type c07Ev struct {
	Kind  string // fn-start fn-end ret state
	Actor int
	OK    bool
	From  string
	To    string
	Err   string
}

func init() {
	vh.AddPart("C07", "lib-conc", "sim", vh.Opts{NoConfirm: true, Shards: 16, TimeoutS: 300, TimeoutSThorough: 3000},
		func(e *vh.Env) []c07Conc {
			var cs []c07Conc
			// closed breaker, one failure older than the interval, then failures arriving together: the stale count is
			// dropped once, the fresh failures all count (threshold 2 and 3)
			for _, acts := range []string{"FF", "FFF", "FSF"} {
				cs = append(cs, c07Conc{Kind: "window-reset", Actors: acts, MR: 1, ST: 1, Bound: -1, Max: e.Pick(1500, 20000)})
			}
			for _, kind := range []string{"boundary", "inside", "straggler", "old-trial"} {
				for _, mr := range []int{1, 2} {
					for _, st := range []int{1, 2} {
						if kind == "old-trial" && mr < 2 {
							continue // two trials of the first half-open period are needed
						}
						for _, acts := range []string{"SS", "SF", "FS", "FF"} {
							cs = append(cs, c07Conc{Kind: kind, Actors: acts, MR: mr, ST: st, Bound: -1, Max: e.Pick(1500, 20000)})
						}
						for _, acts := range []string{"SSS", "SFS", "FSS", "SSF"} {
							cs = append(cs, c07Conc{Kind: kind, Actors: acts, MR: mr, ST: st, Bound: e.Pick(2, 3), Max: e.Pick(1500, 30000)})
						}
					}
				}
			}
			return cs
		},
		func(e *vh.Env, c c07Conc, o *vh.Out) {
			o.Need("schedules", "fn_executions")
			firstSample := true
			if c.Kind == "window-reset" {
				c07WindowReset(e, c, o)
				return
			}
			world := func(s *vh.Sched) func(*vh.Sched, vh.SchedResult) {
				var journal []c07Ev
				cb := circuitbreaker.NewCircuitBreaker(circuitbreaker.Settings{Name: "t", MaxRequests: uint32(c.MR), Interval: 10 * time.Second, Timeout: 30 * time.Second,
					FailureThreshold: 1, SuccessThreshold: uint32(c.ST),
					OnStateChange: func(name string, from, to circuitbreaker.State) {
						journal = append(journal, c07Ev{Kind: "state", From: from.String(), To: to.String()})
					}})
				// "straggler": a request admitted while the breaker was still closed is in flight during the whole
				// episode; its late success is not a trial and must not close the breaker
				release := make(chan struct{})
				stragglerDone := make(chan struct{})
				if c.Kind == "straggler" {
					go func() {
						defer close(stragglerDone)
						_ = cb.Execute(func() error { <-release; return nil })
					}()
					time.Sleep(time.Nanosecond) // it is inside the protected function now
				}
				// trip it
				_ = cb.Execute(func() error { return errFail })
				time.Sleep(31 * time.Second)
				if c.Kind == "old-trial" {
					// a trial of a first half-open period stays in flight while a second trial fails (open again) and
					// the timeout passes once more: its late success is not a trial of the second period
					go func() {
						defer close(stragglerDone)
						_ = cb.Execute(func() error { <-release; return nil })
					}()
					time.Sleep(time.Nanosecond)
					_ = cb.Execute(func() error { return errFail })
					time.Sleep(31 * time.Second)
				}
				pre := 0
				if c.Kind == "inside" {
					// one successful trial already admitted sequentially
					_ = cb.Execute(func() error { return nil })
					pre = 1
				}
				journal = journal[:0]
				closedAlready := cb.State() == circuitbreaker.StateClosed
				for i := 0; i < len(c.Actors); i++ {
					i := i
					ok := c.Actors[i] == 'S'
					s.Go(func() {
						err := cb.Execute(func() error {
							journal = append(journal, c07Ev{Kind: "fn-start", Actor: i})
							// a suspension point inside the protected function
							vhYield("fn.run")
							journal = append(journal, c07Ev{Kind: "fn-end", Actor: i, OK: ok})
							if ok {
								return nil
							}
							return errFail
						})
						es := ""
						if err != nil {
							es = err.Error()
						}
						journal = append(journal, c07Ev{Kind: "ret", Actor: i, Err: es})
					})
				}
				if c.Kind == "straggler" || c.Kind == "old-trial" {
					s.Go(func() { close(release); <-stragglerDone })
				}
				return func(s *vh.Sched, r vh.SchedResult) {
					o.Obs("schedules", 1)
					if r.Deadlock {
						o.Viol("C07|conc|deadlock", fmt.Sprintf("%s actors=%s mr=%d st=%d: actors stuck %v after trace %v", c.Kind, c.Actors, c.MR, c.ST, r.Stuck, s.Trace), map[string]any{"trace": s.Trace, "prefix": s.Choices})
						return
					}
					if closedAlready {
						return // st=1 inside: already closed by the sequential trial; nothing to bound
					}
					admitted, succ := pre, pre
					closed := false
					for _, ev := range journal {
						switch ev.Kind {
						case "fn-start":
							o.Obs("fn_executions", 1)
							if !closed {
								admitted++
							}
						case "fn-end":
							if ev.OK && !closed {
								succ++
							}
						case "state":
							if ev.To == "CLOSED" {
								if succ < c.ST {
									o.Viol("C07|conc|closed-early|"+c.Kind, fmt.Sprintf("%s actors=%s mr=%d st=%d: closed after %d successful trials; trace %v", c.Kind, c.Actors, c.MR, c.ST, succ, s.Trace), map[string]any{"trace": s.Trace, "prefix": s.Choices, "journal": journal})
								}
								closed = true
							}
						}
					}
					if admitted > c.MR {
						o.Viol(fmt.Sprintf("C07|conc|too-many-trials|%s", c.Kind), fmt.Sprintf("%s actors=%s mr=%d st=%d: %d trial requests ran in one half-open episode; trace %v", c.Kind, c.Actors, c.MR, c.ST, admitted, s.Trace),
							map[string]any{"trace": s.Trace, "prefix": s.Choices, "journal": journal})
					}
					if firstSample && c.MR == 1 && c.Actors == "SS" {
						firstSample = false
						o.Sample(map[string]any{"part": "lib-conc", "case": c, "one_trace": s.Trace})
					}
				}
			}
			n, traces, complete := vh.Explore(world, c.Bound, c.Max, 400, 0)
			o.Eval(int64(n))
			for t := range traces {
				o.Distinct(fmt.Sprintf("%v|%s", c, t))
			}
			o.Obs("distinct_interleavings", int64(len(traces)))
			if complete {
				o.Obs("cases_explored_completely", 1)
			} else {
				o.Obs("cases_cut_by_schedule_budget", 1)
			}
		})
}

// c07WindowReset: all interleavings of failing (and one succeeding) requests that arrive together on a closed
// breaker whose only recorded failure is older than the interval. The failures of this instant are consecutive
// failures with no gap: once failure_threshold of them have been reported the breaker is open.
func c07WindowReset(e *vh.Env, c c07Conc, o *vh.Out) {
	nf := strings.Count(c.Actors, "F")
	world := func(s *vh.Sched) func(*vh.Sched, vh.SchedResult) {
		cb := circuitbreaker.NewCircuitBreaker(circuitbreaker.Settings{Name: "t", MaxRequests: 1, Interval: 10 * time.Second, Timeout: 30 * time.Second,
			FailureThreshold: uint32(nf), SuccessThreshold: 1})
		_ = cb.Execute(func() error { return errFail }) // the stale failure
		time.Sleep(11 * time.Second)
		ran := 0
		for i := 0; i < len(c.Actors); i++ {
			ok := c.Actors[i] == 'S'
			s.Go(func() {
				_ = cb.Execute(func() error {
					ran++
					o.Obs("fn_executions", 1)
					vhYield("fn.run")
					if ok {
						return nil
					}
					return errFail
				})
			})
		}
		return func(s *vh.Sched, r vh.SchedResult) {
			o.Obs("schedules", 1)
			if r.Deadlock {
				o.Viol("C07|conc|deadlock", fmt.Sprintf("%s actors=%s: actors stuck %v after trace %v", c.Kind, c.Actors, r.Stuck, s.Trace), map[string]any{"trace": s.Trace, "prefix": s.Choices})
				return
			}
			// every actor that was admitted has reported; a success among them may legitimately come last or first,
			// it does not separate failures of the same instant by more than the interval
			if ran == len(c.Actors) && cb.State() != circuitbreaker.StateOpen {
				o.Viol("C07|conc|not-open-after-threshold|window-reset", fmt.Sprintf("actors=%s: %d failures were reported at one instant (failure_threshold %d, the older failure had expired) and the breaker is %s; trace %v", c.Actors, nf, nf, cb.State(), s.Trace),
					map[string]any{"trace": s.Trace, "prefix": s.Choices})
			}
		}
	}
	n, traces, complete := vh.Explore(world, c.Bound, c.Max, 400, 0)
	o.Eval(int64(n))
	for t := range traces {
		o.Distinct(fmt.Sprintf("%v|%s", c, t))
	}
	o.Obs("distinct_interleavings", int64(len(traces)))
	if complete {
		o.Obs("cases_explored_completely", 1)
	} else {
		o.Obs("cases_cut_by_schedule_budget", 1)
	}
}

// ------------------------------------------------------------ system level

type c07Sys struct {
	Strategy   string `json:"strategy"`
	FT, ST, MR int
	Seq        string `json:"seq"` // o=200 n=404 f=500 u=503 r=refused x=aborted body ; a I T advances
}

const c07SysEvents = "onfurxaIT"

func init() {
	vh.AddPart("C07", "sys", "sim", vh.Opts{Shards: 16, TimeoutS: 400, TimeoutSThorough: 3000},
		func(e *vh.Env) []c07Sys {
			var cs []c07Sys
			// h: a backend that never answers, with the server's write timeout (2 s) shorter than backend_read (5 s): the
			// exchange is given up at the write timeout and is a failure like any other
			fixed := []string{"fffToo", "rrTo", "xxTo", "ffToTo", "ufTfTo", "fafafIfo", "oofoIfof", "rfxToTo", "fTfTfTo", "ffTooffo", "nfnfTnn", "hho", "hhhToo", "fhTo",
				// S: 29 s, just short of the timeout - counted from the moment a slow failure was known, not from its start
				"hSo", "hhSoTo", "hhhSo", "fhSoo", "hThSo",
				// l: the rate limiter is on as well and a client whose bucket is empty asks again: answered 429 by the limiter,
				// no business of the breaker's (neither a trial nor a failure)
				"ffTlo", "ffTllfTo", "lfflTlo", "ufTlfTlo"}
			cfgs := [][3]int{{1, 1, 1}, {2, 1, 1}, {2, 2, 2}, {3, 1, 2}, {2, 2, 3}}
			for si, st := range allStrategies {
				for ci, cf := range cfgs {
					for _, sq := range fixed {
						cs = append(cs, c07Sys{st, cf[0], cf[1], cf[2], sq})
					}
					r := e.Rand("c07sys", si, ci)
					for k := 0; k < e.Pick(6, 60); k++ {
						b := make([]byte, 6+r.Intn(7))
						for i := range b {
							b[i] = c07SysEvents[r.Intn(len(c07SysEvents))]
						}
						cs = append(cs, c07Sys{st, cf[0], cf[1], cf[2], string(b)})
					}
				}
			}
			return cs
		},
		func(e *vh.Env, c c07Sys, o *vh.Out) {
			o.Need("requests", "outcome_rej-open", "outcome_ran-fail", "outcome_ran-ok")
			c07SysRun(e, c, o, "C07")
		})
}

// c07SysRun drives one system-level history; returns the system for follow-up (nil when it failed to build).
func c07SysRun(e *vh.Env, c c07Sys, o *vh.Out, prop string) {
	bes := newBackends(2)
	defer closeBackends(bes)
	cfg := baseConfig(c.Strategy, bes)
	cfg.CircuitBreaker.Enabled = true
	cfg.CircuitBreaker.FailureThreshold = c.FT
	cfg.CircuitBreaker.SuccessThreshold = c.ST
	cfg.CircuitBreaker.MaxRequests = c.MR
	cfg.CircuitBreaker.IntervalSeconds = 10
	cfg.CircuitBreaker.TimeoutSeconds = 30
	cfg.Server.Timeouts.BackendRead = 5
	cfg.Server.Timeouts.BackendDial = 2
	if strings.Contains(c.Seq, "h") {
		cfg.Server.Timeouts.Write = 2
	}
	limited := strings.Contains(c.Seq, "l")
	if limited {
		cfg.RateLimit = config.RateLimitConfig{Enabled: true, MaxTokens: 1, RefillRate: 3600}
	}
	if err := cfg.Validate(); err != nil {
		o.Inconcl("config rejected: %v", err)
		return
	}
	sys, err := startSys(cfg, bes, true)
	if err != nil {
		o.Inconcl("startSys: %v", err)
		return
	}
	defer sys.Close()
	if limited {
		// the one token of the client that will be refused later is spent now (a success on a closed breaker)
		ok := vh.Script{Status: 200, Steps: []vh.Step{{Op: "write", N: 4}}}
		if rs := vh.Do(sys.Addr, vh.RawReq{Method: "GET", Target: "/drain", Headers: [][2]string{{vh.ScriptHeader, ok.Encode()}, {"X-Forwarded-For", "10.7.250.250"}}, TimeoutMs: 60000, Instant: true}); rs.Status != 200 {
			o.Inconcl("draining request got %d", rs.Status)
			return
		}
		vh.Settle()
	}
	m := vh.NewBreakerModel(c.FT, c.ST, c.MR, 10*time.Second, 30*time.Second)
	adv := map[byte]time.Duration{'a': 3 * time.Second, 'I': 11 * time.Second, 'T': 31 * time.Second, 'S': 29 * time.Second}
	origin := time.Now()
	o.Eval(1)
	o.Distinct(vh.J(c))
	for i := 0; i < len(c.Seq); i++ {
		ev := c.Seq[i]
		if d, ok := adv[ev]; ok {
			time.Sleep(d)
			continue
		}
		var sc vh.Script
		switch ev {
		case 'o':
			sc = vh.Script{Status: 200, Steps: []vh.Step{{Op: "write", N: 10}}}
		case 'n':
			sc = vh.Script{Status: 404, Steps: []vh.Step{{Op: "write", N: 3}}}
		case 'f':
			sc = vh.Script{Status: 500, Steps: []vh.Step{{Op: "write", N: 5}}}
		case 'u':
			sc = vh.Script{Status: 503, Interim: []vh.Interim{{Code: 103, Headers: [][2]string{{"Link", "</x>"}}}}} // a failure announced after an informational response
		case 'x':
			sc = vh.Script{Status: 200, Framing: "cl", Declared: 5000, Steps: []vh.Step{{Op: "write", N: 100}, {Op: "flush"}, {Op: "closeconn"}}}
		case 'r':
			sc = vh.Script{RawReset: true} // connection dropped before any response: the backend is unreachable for this request
		case 'h':
			sc = vh.Script{HangFirst: true}
		case 'l':
			sc = vh.Script{Status: 200, Steps: []vh.Step{{Op: "write", N: 4}}}
		}
		before := bes[0].Count() + bes[1].Count()
		t := time.Since(origin)
		hdrs := [][2]string{{vh.ScriptHeader, sc.Encode()}}
		if limited {
			// every request is a client of its own, except the drained one
			cl := fmt.Sprintf("10.7.%d.%d", i/200, i%200+1)
			if ev == 'l' {
				cl = "10.7.250.250"
			}
			hdrs = append(hdrs, [2]string{"X-Forwarded-For", cl})
		}
		rs := vh.Do(sys.Addr, vh.RawReq{Method: "GET", Target: "/r", Headers: hdrs, TimeoutMs: 60000, Instant: ev != 'h'})
		if ev == 'l' {
			vh.Settle()
			if rs.Status != 429 {
				o.Viol(prop+"|sys|unexpected-response", fmt.Sprintf("%s seq=%s step %d (l): the drained client got %d %q", c.Strategy, c.Seq, i, rs.Status, trunc(string(rs.Body), 60)), nil)
				return
			}
			if n := bes[0].Count() + bes[1].Count() - before; n != 0 {
				o.Viol(prop+"|sys|backend-contacted-on-reject", fmt.Sprintf("%s seq=%s step %d: the limiter answered 429 but %d request(s) reached a backend", c.Strategy, c.Seq, i, n), nil)
				return
			}
			o.Obs("limiter_rejections_beside_the_breaker", 1)
			continue // not an event of the breaker at all
		}
		vh.Settle()
		arrived := bes[0].Count() + bes[1].Count() - before
		body := string(rs.Body)
		var out vh.Outcome
		switch {
		// Helios's own refusals are recognised by status and by the fact that no backend was contacted, not by the
		// wording of their bodies: 503 is what the statement prescribes while the breaker is open; 429 is what the
		// code answers to a surplus trial (the statement names no status for that, and a 503 there is read as "open",
		// which the acceptor allows in half-open as well)
		case rs.Status == 503 && arrived == 0:
			out = vh.RejOpen
		case rs.Status == 429 && arrived == 0:
			out = vh.RejMany
		case ev == 'o' && rs.Status == 200 && rs.Complete, ev == 'n' && rs.Status == 404:
			out = vh.RanOK
		case ev == 'f' && rs.Status == 500, ev == 'u' && rs.Status == 503 && arrived > 0, ev == 'r' && rs.Status >= 500 && arrived > 0:
			out = vh.RanFail
		case ev == 'x' && ((rs.Status == 200 && !rs.Complete) || (rs.Status == 0 && rs.Err != "" && arrived > 0)):
			out = vh.RanPanic // aborted response: truncated body or connection closed without a response
		case ev == 'h' && arrived > 0 && (rs.Status == 502 || rs.Status == 504 || (rs.Status == 0 && rs.Err != "")):
			out = vh.RanFail // given up at the write timeout: 502, or nothing if the deadline for writing it had passed too
		default:
			o.Viol(prop+"|sys|unexpected-response", fmt.Sprintf("%s seq=%s step %d (%c): status %d complete=%v err=%q body=%q", c.Strategy, c.Seq, i, ev, rs.Status, rs.Complete, rs.Err, trunc(body, 80)), nil)
			return
		}
		o.Obs("requests", 1)
		o.Obs("outcome_"+out.String(), 1)
		if (out == vh.RejOpen || out == vh.RejMany) && arrived != 0 {
			o.Viol(prop+"|sys|backend-contacted-on-reject", fmt.Sprintf("%s seq=%s step %d: breaker rejected the request but %d request(s) reached a backend", c.Strategy, c.Seq, i, arrived), nil)
			return
		}
		if out != vh.RejOpen && out != vh.RejMany && arrived < 1 {
			o.Viol(prop+"|sys|arrival-mismatch", fmt.Sprintf("%s seq=%s step %d (%c): response %d but %d arrivals at the backends", c.Strategy, c.Seq, i, ev, rs.Status, arrived), nil)
			return
		}
		st := sys.LB.VerifBreaker().State().String()
		if ev == 'h' {
			// the backend never answers and nothing but the write timeout (2 s) ends the exchange: the failure cannot have
			// been reported to the breaker before that, nor after the client saw the exchange end
			d := time.Duration(rs.DurNS)
			if d > 2*time.Second {
				d = 2 * time.Second
			}
			m.Done = t + d
		}
		if kind, desc := m.Step(t, out, st); kind != "" {
			o.Viol(fmt.Sprintf("%s|sys|%s", prop, kind), fmt.Sprintf("%s ft=%d st=%d mr=%d seq=%s step %d (%c -> %s, state %s): %s", c.Strategy, c.FT, c.ST, c.MR, c.Seq, i, ev, out, st, desc),
				map[string]any{"step": i, "outcome": out.String(), "state": st})
			return
		}
	}
	if c.Seq == "fffToo" && c.Strategy == "round_robin" && c.FT == 2 {
		o.Sample(map[string]any{"part": "sys", "case": c, "alphabet": "o=200 n=404 f=500 u=503 r=connection dropped x=aborted body a=+3s I=+11s T=+31s"})
	}
}

func trunc(s string, n int) string {
	if len(s) > n {
		return s[:n] + "..."
	}
	return s
}
