package main

import (
	"io"
	"net/http"
	"context"
	"fmt"
	"net/http/httptest"
	"sort"
	"strings"
	"sync"
	"time"

	"github.com/0xReLogic/Helios/internal/config"
	vh "github.com/0xReLogic/Helios/internal/verifh"
)

// C13: conservation ledger (DESIGN.md Appendix A.4) at quiescence.

var c13Kinds = []string{"ok", "n4", "f5", "refuse", "short", "reset", "cdown", "cup", "rl", "cb", "ch", "nb", "gone", "oddkey"}

type c13Case struct {
	Strategy string   `json:"strategy"`
	Kinds    []string `json:"kinds"`
	Clients  int      `json:"clients"` // 1 = sequential
	NBack    int      `json:"n_backends"`
}

type c13Ledger struct {
	sent                               int
	limiter, breaker, nobackend, other int
	unreachable                        int
}

// c13Snapshot reads the published numbers.
func c13Snapshot(sys *Sys) (total, succ, failed, rl int64, perBackend map[string]int64, gauges map[string]int64) {
	m := sys.metricsJSON()
	total, succ, failed, rl = num(m, "total_requests"), num(m, "successful_requests"), num(m, "failed_requests"), num(m, "rate_limited_requests")
	perBackend, gauges = map[string]int64{}, map[string]int64{}
	if bm, ok := m["backend_metrics"].(map[string]any); ok {
		for name, v := range bm {
			if mv, ok := v.(map[string]any); ok {
				perBackend[name] = num(mv, "total_requests")
				gauges["metrics:"+name] = num(mv, "active_connections")
			}
		}
	}
	infos, _ := listBackends(sys.admin())
	for _, bi := range infos {
		gauges["admin:"+bi.Name] = int64(bi.Active)
	}
	return
}

func c13Run(e *vh.Env, c c13Case, o *vh.Out) {
	bes := newBackends(c.NBack)
	defer closeBackends(bes)
	f := featureCfg{}
	cfg := faultConfig(c.Strategy, bes, f)
	// features needed by the rejecting kinds; thresholds chosen so that only the dedicated kinds trigger them
	hasKind := func(k string) bool {
		for _, x := range c.Kinds {
			if x == k {
				return true
			}
		}
		return false
	}
	if hasKind("rl") || hasKind("oddkey") {
		cfg.RateLimit = config.RateLimitConfig{Enabled: true, MaxTokens: 3, RefillRate: 3600}
	}
	if hasKind("cb") || hasKind("ch") {
		cfg.CircuitBreaker = config.CircuitBreakerConfig{Enabled: true, FailureThreshold: 1, SuccessThreshold: 1, IntervalSeconds: 3600, TimeoutSeconds: 3600}
		if hasKind("ch") {
			cfg.CircuitBreaker.TimeoutSeconds = 5
		}
	}
	sys, err := startSys(cfg, bes, true)
	if err != nil {
		o.Inconcl("startSys: %v", err)
		return
	}
	defer sys.Close()
	var mu sync.Mutex
	led := c13Ledger{}
	ctx := fmt.Sprintf("%s kinds=%v clients=%d backends=%d", c.Strategy, c.Kinds, c.Clients, c.NBack)
	seq := 0
	// scen: the scenario the request belongs to. Helios's own refusals are told apart by status and scenario, not by
	// the wording of their bodies (which the property does not fix): only the drained client of "rl" can be refused
	// by the limiter (every other request has a client address of its own), only "nb" requests for want of a backend, and any
	// other 503/429 in a configuration with the breaker on is the breaker's
	scen := ""
	account := func(r faultResult, kind string) {
		mu.Lock()
		defer mu.Unlock()
		led.sent++
		breakerOn := hasKind("cb") || hasKind("ch")
		switch {
		case (scen == "rl" || scen == "oddkey") && r.Status == 429: // "oddkey" repeated in one multiset drains its three keys as well
			led.limiter++
		case scen == "nb" && r.Status == 503:
			led.nobackend++
		case breakerOn && (r.Status == 503 || r.Status == 429):
			// no scripted backend of this part answers 503 or 429 itself, and the open breaker of "cb" outlasts its scenario
			led.breaker++
		default:
			led.other++
			if kind == "refuse" || kind == "gone" {
				led.unreachable++ // dispatched to a backend that never saw the request
			}
		}
	}
	one := func(kind string, cl int) {
		if kind == "rl" || kind == "cb" || kind == "ch" || kind == "nb" || kind == "oddkey" {
			// these scenarios run alone (see below), so the marker is not shared
			scen = kind
			defer func() { scen = "" }()
		}
		// a fresh client address per request: only the dedicated "rl" kind may run into the limiter
		mu.Lock()
		seq++
		hdr := [][2]string{{"X-Forwarded-For", fmt.Sprintf("10.13.%d.%d", cl, seq)}}
		mu.Unlock()
		// every request of the breaker scenarios comes from a client of its own, so that the limiter (burst 3) has no say there
		fresh := func() [][2]string {
			mu.Lock()
			defer mu.Unlock()
			seq++
			return [][2]string{{"X-Forwarded-For", fmt.Sprintf("10.13.%d.%d", 100+cl, seq)}}
		}
		switch kind {
		case "rl":
			// one client exhausts its burst of 3: requests 4.. are rate limited
			hdr = [][2]string{{"X-Forwarded-For", "10.13.250.250"}}
			for i := 0; i < 5; i++ {
				account(doFault(sys, "ok", hdr), "ok")
			}
			return
		case "cb":
			// a 500 opens the breaker (threshold 1), the next request is rejected by it
			account(doFault(sys, "f5", fresh()), "f5")
			account(doFault(sys, "ok", fresh()), "ok")
			return
		case "ch":
			// open the breaker, wait out its timeout, keep the half-open trial in flight and send two more
			// requests: they are rejected as "too many requests" while the trial is pending
			account(doFault(sys, "f5", fresh()), "f5")
			time.Sleep(6 * time.Second)
			var trial faultResult
			tdone := make(chan struct{})
			go func() { trial = doFault(sys, "holdtrial", fresh()); close(tdone) }()
			for t := 0; t < 200; t++ {
				n := 0
				for _, b := range bes {
					n += b.Inflight()
				}
				if n > 0 {
					break
				}
				time.Sleep(time.Millisecond)
			}
			account(doFault(sys, "ok", fresh()), "ok")
			account(doFault(sys, "ok", fresh()), "ok")
			for _, b := range bes {
				b.Release("trial")
			}
			<-tdone
			for _, b := range bes {
				b.Rearm("trial")
			}
			account(trial, "ok")
			return
		case "gone":
			// the client has already given up when the balancer gets the request (context cancelled before anything
			// is forwarded): dispatched to a backend, never arrives there
			ctx, cancel := context.WithCancel(context.Background())
			cancel()
			rq := httptest.NewRequest("GET", "/gone", nil).WithContext(ctx)
			rq.RemoteAddr = "10.13.77.1:1"
			rq.Header.Set("X-Forwarded-For", hdr[0][1])
			rec := httptest.NewRecorder()
			sys.Handler.ServeHTTP(finalOnly{rec}, rq)
			account(faultResult{Status: rec.Code, Body: trunc(rec.Body.String(), 80)}, "gone")
			return
		case "oddkey":
			// the limiter is on and the client address in the header is not an IP address: still one client, still counted
			for _, v := range []string{"unknown", "proxy.internal", "_hidden"} {
				account(doFault(sys, "ok", [][2]string{{"X-Forwarded-For", v}}), "ok")
			}
			return
		case "nb":
			// every backend ejected: "no healthy backend"
			for _, b := range sys.LB.VerifBackends() {
				sys.LB.MarkBackendUnhealthy(b, 2*time.Second)
			}
			account(doFault(sys, "ok", hdr), "ok")
			time.Sleep(2100 * time.Millisecond)
			return
		}
		account(doFault(sys, kind, hdr), kind)
	}
	if c.Clients <= 1 {
		for _, k := range c.Kinds {
			one(k, 0)
		}
	} else {
		// the same multiset issued by several clients at once ("refuse"/"nb" change global state, so they run first, alone)
		var wg sync.WaitGroup
		for cl := 0; cl < c.Clients; cl++ {
			cl := cl
			wg.Add(1)
			go func() {
				defer wg.Done()
				for _, k := range c.Kinds {
					if k == "refuse" || k == "nb" || k == "rl" || k == "cb" || k == "ch" || k == "oddkey" {
						continue
					}
					one(k, cl)
				}
			}()
		}
		wg.Wait()
		for _, k := range c.Kinds {
			if k == "refuse" || k == "nb" || k == "rl" || k == "cb" || k == "ch" || k == "oddkey" {
				one(k, 0)
			}
		}
	}
	// quiescence: longer than every configured timeout
	time.Sleep(20 * time.Second)
	vh.Settle()
	total, succ, failed, rl, perB, gauges := c13Snapshot(sys)
	o.Eval(1)
	o.Obs("requests_sent", int64(led.sent))
	detail := map[string]any{"ledger": fmt.Sprintf("%+v", led), "total": total, "successful": succ, "failed": failed, "rate_limited": rl, "per_backend": perB, "gauges": gauges}
	if total != int64(led.sent) {
		o.Viol("C13|total", fmt.Sprintf("%s: %d requests reached the balancer but total_requests is %d", ctx, led.sent, total), detail)
		return
	}
	if succ+failed+rl != total {
		o.Viol("C13|sum|"+c13Dominant(c.Kinds), fmt.Sprintf("%s: successful %d + failed %d + rate_limited %d != total_requests %d", ctx, succ, failed, rl, total), detail)
		return
	}
	if rl != int64(led.limiter) {
		o.Viol("C13|rate-limited", fmt.Sprintf("%s: %d requests were answered 429 by the limiter, rate_limited_requests is %d", ctx, led.limiter, rl), detail)
		return
	}
	var sumB, sumArr int64
	for _, b := range bes {
		arr := int64(b.Count())
		sumB += perB[b.Name]
		sumArr += arr
		if perB[b.Name] < arr {
			o.Viol("C13|backend-total-low", fmt.Sprintf("%s: backend %s handled %d requests but its total_requests is %d", ctx, b.Name, arr, perB[b.Name]), detail)
			return
		}
	}
	if sumB != sumArr+int64(led.unreachable) {
		o.Viol("C13|backend-totals|"+c13Dominant(c.Kinds), fmt.Sprintf("%s: backends handled %d requests (+%d dispatched to a refusing backend) but the per-backend totals add up to %d", ctx, sumArr, led.unreachable, sumB), detail)
		return
	}
	for k, g := range gauges {
		if g != 0 {
			o.Viol("C13|gauge-not-zero|"+strings.SplitN(k, ":", 2)[0]+"|"+c13Dominant(c.Kinds), fmt.Sprintf("%s: idle, but active_connections of %s is %d", ctx, k, g), detail)
			return
		}
	}
	o.Obs("ledgers_balanced", 1)
	o.Obs("rejected_by_breaker", int64(led.breaker))
	o.Obs("rejected_by_limiter", int64(led.limiter))
	o.Obs("no_backend", int64(led.nobackend))
}

// c13Dominant names the rarest kind of the multiset for the signature.
func c13Dominant(kinds []string) string {
	prio := []string{"gone", "oddkey", "cup", "cdown", "short", "reset", "refuse", "nb", "ch", "cb", "rl", "f5", "n4", "ok"}
	for _, p := range prio {
		for _, k := range kinds {
			if k == p {
				return p
			}
		}
	}
	return "?"
}

func init() {
	vh.AddPart("C13", "ledger", "sim", vh.Opts{Shards: 16, TimeoutS: 500, TimeoutSThorough: 3000},
		func(e *vh.Env) []c13Case {
			var cs []c13Case
			maxSize := e.Pick(3, 4)
			// all multisets of size <= maxSize over the kinds
			var rec func(start int, cur []string)
			ms := [][]string{}
			rec = func(start int, cur []string) {
				if len(cur) > 0 {
					ms = append(ms, append([]string(nil), cur...))
				}
				if len(cur) == maxSize {
					return
				}
				for i := start; i < len(c13Kinds); i++ {
					rec(i, append(cur, c13Kinds[i]))
				}
			}
			rec(0, nil)
			for i, m := range ms {
				st := allStrategies[i%5]
				cs = append(cs, c13Case{Strategy: st, Kinds: m, Clients: 1, NBack: 1 + i%2})
				if i%4 == 0 {
					cs = append(cs, c13Case{Strategy: allStrategies[(i/4)%5], Kinds: m, Clients: []int{2, 8, 64}[i%3], NBack: 1 + i%3})
				}
			}
			// sequences matter too (order of rejecting kinds): seeded permutations
			r := e.Rand("c13perm")
			for i := 0; i < e.Pick(150, 1500); i++ {
				n := 2 + r.Intn(5)
				k := make([]string, n)
				for j := range k {
					k[j] = c13Kinds[r.Intn(len(c13Kinds))]
				}
				cs = append(cs, c13Case{Strategy: allStrategies[r.Intn(5)], Kinds: k, Clients: []int{1, 1, 4, 16}[r.Intn(4)], NBack: 1 + r.Intn(3)})
			}
			return cs
		},
		func(e *vh.Env, c c13Case, o *vh.Out) {
			o.Need("requests_sent", "ledgers_balanced", "rejected_by_breaker", "rejected_by_limiter", "no_backend")
			c13Run(e, c, o)
			k := append([]string(nil), c.Kinds...)
			if c.Clients > 1 {
				sort.Strings(k)
			}
			o.Distinct(fmt.Sprintf("%s|%v|%d|%d", c.Strategy, k, c.Clients, c.NBack))
			if len(c.Kinds) == 3 && c.Kinds[0] == "ok" && c.Kinds[1] == "short" && c.Kinds[2] == "rl" {
				o.Sample(map[string]any{"part": "ledger", "case": c, "kinds": "gone(context cancelled before forwarding) oddkey(limiter on, client address not an IP) ok n4 f5 refuse short reset cdown(client abort mid-download) cup(client abort mid-upload) rl(burst beyond limiter) cb(500 then breaker-rejected) ch(half-open trial pending, extra requests rejected) nb(all ejected)"})
			}
		})

	// ---- the gauge equals the number of requests really held open
	type c13Hold struct {
		Strategy string `json:"strategy"`
		Holds    []int  `json:"holds"`
	}
	vh.AddPart("C13", "gauge-hold", "sim", vh.Opts{Shards: 16, TimeoutS: 300},
		func(e *vh.Env) []c13Hold {
			var cs []c13Hold
			for _, st := range allStrategies {
				for _, h := range [][]int{{1}, {3}, {2, 1}, {0, 4}, {1, 2, 3}, {5, 0, 2}} {
					cs = append(cs, c13Hold{st, h})
				}
			}
			return cs
		},
		func(e *vh.Env, c c13Hold, o *vh.Out) {
			o.Need("gauge_checks", "gauge_checks_after_recovery")
			bes := newBackends(len(c.Holds))
			defer closeBackends(bes)
			ghCfg := faultConfig(c.Strategy, bes, featureCfg{})
			ghCfg.Server.Timeouts.Write = 3600 // the held requests outlast the 5 s write timeout of the fault configuration
			sys, err := startSys(ghCfg, bes, true)
			if err != nil {
				o.Inconcl("startSys: %v", err)
				return
			}
			defer sys.Close()
			live := sys.LB.VerifBackends()
			hold := vh.Script{Status: 200, Framing: "chunked", Steps: []vh.Step{{Op: "write", N: 5}, {Op: "flush"}, {Op: "hold", Key: "g"}, {Op: "write", N: 5}}} // headers first: backend_read (2 s) only bounds the wait for them
			var wg sync.WaitGroup
			for i, n := range c.Holds {
				if n == 0 {
					continue
				}
				for j, b := range live {
					if j != i {
						sys.LB.MarkBackendUnhealthy(b, 3*time.Second)
					}
				}
				for q := 0; q < n; q++ {
					wg.Add(1)
					go func() {
						defer wg.Done()
						vh.Do(sys.Addr, vh.RawReq{Method: "GET", Target: "/hold", Headers: [][2]string{{vh.ScriptHeader, hold.Encode()}, {"X-Forwarded-For", "10.13.9.9"}}, TimeoutMs: 600000})
					}()
				}
				for t := 0; t < 1000 && bes[i].Inflight() < n; t++ {
					time.Sleep(time.Millisecond)
				}
				time.Sleep(4 * time.Second)
			}
			vh.Settle()
			_, _, _, _, _, gauges := c13Snapshot(sys)
			o.Eval(1)
			o.Distinct(vh.J(c))
			for i, b := range bes {
				want := int64(bes[i].Inflight())
				for _, src := range []string{"metrics:", "admin:"} {
					if g, ok := gauges[src+b.Name]; ok || want > 0 {
						if g != want {
							o.Viol("C13|gauge-while-held|"+strings.TrimSuffix(src, ":"), fmt.Sprintf("%s holds=%v: %d requests are in flight at %s but %sactive_connections is %d", c.Strategy, c.Holds, want, b.Name, src, g), gauges)
						}
						o.Obs("gauge_checks", 1)
					}
				}
			}
			// every backend that holds requests is ejected and taken back while they are still in flight:
			// health transitions do not touch the gauge
			for i, b := range live {
				if c.Holds[i] > 0 {
					sys.LB.MarkBackendUnhealthy(b, time.Second)
				}
			}
			time.Sleep(1500 * time.Millisecond)
			for _, b := range live {
				sys.LB.IsBackendHealthy(b) // what a request that considers the backend does
			}
			vh.Settle()
			_, _, _, _, _, gauges = c13Snapshot(sys)
			for i, b := range bes {
				want := int64(bes[i].Inflight())
				for _, src := range []string{"metrics:", "admin:"} {
					if g, ok := gauges[src+b.Name]; (ok || want > 0) && g != want {
						o.Viol("C13|gauge-while-held|after-recovery|"+strings.TrimSuffix(src, ":"), fmt.Sprintf("%s holds=%v: %s was ejected and taken back with %d requests in flight, %sactive_connections is %d", c.Strategy, c.Holds, b.Name, want, src, g), gauges)
					}
				}
				if want > 0 {
					o.Obs("gauge_checks_after_recovery", 1)
				}
			}
			for _, b := range bes {
				b.Release("g")
			}
			wg.Wait()
			time.Sleep(time.Second)
			vh.Settle()
			_, _, _, _, _, gauges = c13Snapshot(sys)
			for k, g := range gauges {
				if g != 0 {
					o.Viol("C13|gauge-not-zero|after-hold", fmt.Sprintf("%s holds=%v: all requests finished but %s is %d", c.Strategy, c.Holds, k, g), gauges)
				}
			}
			if c.Strategy == "least_connections" && len(c.Holds) == 3 && c.Holds[0] == 1 {
				o.Sample(map[string]any{"part": "gauge-hold", "case": c, "gauges_after": gauges})
			}
		})

	// ---- interleaved completions: the published gauge must not go stale
	type c13Sched struct {
		Strategy string `json:"strategy"`
		N        int    `json:"n"`
		// Eject: both backends answer 500 with a passive threshold of 1, so a request that completes ejects its
		// backend while others stand between "picked" and "examined" and have to retry
		Eject bool `json:"eject,omitempty"`
	}
	vh.AddPart("C13", "gauge-schedules", "sim", vh.Opts{NoConfirm: true, Shards: 10, TimeoutS: 400},
		func(e *vh.Env) []c13Sched {
			var cs []c13Sched
			for _, st := range allStrategies {
				cs = append(cs, c13Sched{st, 2, false}, c13Sched{st, 3, false}, c13Sched{st, 3, true})
			}
			return cs
		},
		func(e *vh.Env, c c13Sched, o *vh.Out) {
			o.Need("schedules")
			bes := newBackends(1)
			if c.Eject {
				bes = newBackends(2)
				o.Need("retries_after_ejection")
			}
			defer closeBackends(bes)
			world := func(s *vh.Sched) func(*vh.Sched, vh.SchedResult) {
				cfg := faultConfig(c.Strategy, bes, featureCfg{})
				s.Only = map[string]bool{"lb.proxy.inc": true, "lb.proxy.dec": true, "lb.proxy.publish": true}
				if c.Eject {
					cfg.HealthChecks.Passive = config.PassiveHealthCheckConfig{Enabled: true, UnhealthyThreshold: 1, UnhealthyTimeout: 30}
					for _, b := range bes {
						b.Reset()
						b.Default = vh.Script{Status: 500, Headers: [][2]string{{"X-Backend", b.Name}}}
					}
					s.Only = map[string]bool{"lb.find.picked": true}
				}
				sys, err := startSys(cfg, bes, false)
				if err != nil {
					return nil
				}
				for a := 0; a < c.N; a++ {
					a := a
					s.Go(func() {
						cl := fmt.Sprintf("10.13.7.%d:1", a)
						if c.Eject {
							cl = "10.13.7.7:1" // one client: the hash strategies send everybody to the same backend
						}
						sys.call("GET", "/g", cl, nil, nil)
					})
				}
				return func(s *vh.Sched, r vh.SchedResult) {
					defer sys.Close()
					o.Obs("schedules", 1)
					if c.Eject {
						// an actor released twice from "picked" found its backend ejected in between and retried
						seen := map[string]int{}
						for _, t := range s.Trace {
							seen[t]++
							if seen[t] == 2 {
								o.Obs("retries_after_ejection", 1)
							}
						}
					}
					if r.Deadlock {
						o.Viol("C13|sched|stuck", fmt.Sprintf("%s: %v trace %v", c.Strategy, r.Stuck, s.Trace), map[string]any{"prefix": s.Choices})
						return
					}
					_, _, _, _, _, gauges := c13Snapshot(sys)
					for k, g := range gauges {
						if g != 0 {
							o.Viol("C13|sched|stale-gauge|"+strings.SplitN(k, ":", 2)[0], fmt.Sprintf("%s: %d requests completed, nothing in flight, but %s is %d; trace %v", c.Strategy, c.N, k, g, s.Trace), map[string]any{"prefix": s.Choices, "trace": s.Trace})
							return
						}
					}
				}
			}
			n, traces, _ := vh.Explore(world, -1, e.Pick(300, 3000), 300, 5*time.Second)
			o.Eval(int64(n))
			for t := range traces {
				o.Distinct(fmt.Sprintf("%v|%s", c, t))
			}
			o.Obs("distinct_interleavings", int64(len(traces)))
			if c.Strategy == "round_robin" && c.N == 2 {
				var one string
				for t := range traces {
					one = t
					break
				}
				o.Sample(map[string]any{"part": "gauge-schedules", "case": c, "interleavings": len(traces), "one_trace": one})
			}
		})
}

// ---- completions that really coincide (race flavour, 16 cores): several requests of one backend are released by the
// backend at the same moment while two readers keep the collector's mutex busy; once everything has returned the
// published gauge is zero. Quiescence is awaited by polling the backend's own in-flight count, not by a deadline.
func init() {
	type c13Conc struct {
		Strategy string `json:"strategy"`
		K        int    `json:"requests_released_together"`
	}
	vh.AddPart("C13", "gauge-concurrent", "race", vh.Opts{Shards: 5, Procs: 8, TimeoutS: 400},
		func(e *vh.Env) []c13Conc {
			var cs []c13Conc
			for i, st := range allStrategies {
				cs = append(cs, c13Conc{st, 4 + 2*(i%3)})
			}
			return cs
		},
		func(e *vh.Env, c c13Conc, o *vh.Out) {
			o.Need("gauge_rounds")
			bes := newBackends(1)
			defer closeBackends(bes)
			cfg := faultConfig(c.Strategy, bes, featureCfg{})
			cfg.Server.Timeouts.Write = 3600
			sys, err := startSys(cfg, bes, true)
			if err != nil {
				o.Inconcl("startSys: %v", err)
				return
			}
			defer sys.Close()
			stop := make(chan struct{})
			var readers sync.WaitGroup
			for i := 0; i < 2; i++ {
				readers.Add(1)
				go func() {
					defer readers.Done()
					for {
						select {
						case <-stop:
							return
						default:
							sys.metricsJSON()
						}
					}
				}()
			}
			defer func() { close(stop); readers.Wait() }()
			rounds := e.Pick(150, 600)
			client := &http.Client{Transport: &http.Transport{MaxIdleConnsPerHost: 32}, Timeout: 60 * time.Second}
			for round := 0; round < rounds; round++ {
				key := fmt.Sprintf("r%d", round)
				hold := vh.Script{Status: 200, Framing: "chunked", Steps: []vh.Step{{Op: "write", N: 5}, {Op: "flush"}, {Op: "hold", Key: key}, {Op: "write", N: 5}}}
				var wg sync.WaitGroup
				for q := 0; q < c.K; q++ {
					wg.Add(1)
					go func() {
						defer wg.Done()
						req, _ := http.NewRequest("GET", "http://"+sys.Addr+"/together", nil)
						req.Header.Set(vh.ScriptHeader, hold.Encode())
						resp, err := client.Do(req)
						if err == nil {
							io.Copy(io.Discard, resp.Body)
							resp.Body.Close()
						}
					}()
				}
				for t := 0; t < 20000 && bes[0].Inflight() < c.K; t++ {
					time.Sleep(500 * time.Microsecond)
				}
				if bes[0].Inflight() < c.K {
					o.Inconcl("round %d: only %d of %d requests reached the backend", round, bes[0].Inflight(), c.K)
					bes[0].Release(key)
					wg.Wait()
					return
				}
				bes[0].Release(key)
				wg.Wait()
				// the handlers may still be on their way out: the gauge is polled until it is zero, for up to 10 s of real time (a generous watchdog: the handlers need microseconds)
				var g int64
				for t := 0; t < 5000; t++ {
					time.Sleep(2 * time.Millisecond)
					_, _, _, _, _, gauges := c13Snapshot(sys)
					g = gauges["metrics:"+bes[0].Name]
					if g == 0 {
						break
					}
				}
				o.Obs("gauge_rounds", 1)
				if g != 0 && sys.LB.VerifBackends()[0].GetActiveConnections() != 0 {
					o.Inconcl("round %d: the balancer's own in-flight count is still %d after 10 s (wall-clock watchdog, no verdict)", round, sys.LB.VerifBackends()[0].GetActiveConnections())
					return
				}
				if g != 0 {
					o.Viol("C13|gauge-not-zero|after-simultaneous-completions", fmt.Sprintf("%s: %d requests of %s completed together (round %d); 10 s after the last of them returned, with nothing in flight and the balancer's own count at zero, the published active_connections is still %d", c.Strategy, c.K, bes[0].Name, round, g), nil)
					return
				}
			}
			o.Eval(1)
			o.Distinct(vh.J(c))
			if c.Strategy == "round_robin" {
				o.Sample(map[string]any{"part": "gauge-concurrent", "case": c, "rounds": rounds})
			}
		})
}
