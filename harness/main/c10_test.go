package main

import (
	"gopkg.in/yaml.v3"

	"fmt"
	"math/rand"
	"net/http"
	"net/http/httptest"
	"net/netip"
	"strings"

	"github.com/0xReLogic/Helios/internal/adminapi"
	"github.com/0xReLogic/Helios/internal/config"
	vh "github.com/0xReLogic/Helios/internal/verifh"
)

// C10: admin API access control, decided against an independent reference
// policy written with net/netip (the product uses package net).

type c10Case struct {
	Idx   int      `json:"idx"`
	Token string   `json:"token"`
	Allow []string `json:"allow"`
	Deny  []string `json:"deny"`
	YAML  bool     `json:"via_yaml,omitempty"` // the configuration is written as YAML and loaded by config.LoadConfig
}

type c10Policy struct {
	allow, deny []netip.Prefix
	malformed   bool
}

func c10ParseEntry(s string) (netip.Prefix, bool) {
	if p, err := netip.ParsePrefix(s); err == nil {
		return netip.PrefixFrom(p.Addr().Unmap(), func() int {
			if p.Addr().Is4In6() && p.Bits() >= 96 {
				return p.Bits() - 96
			}
			return p.Bits()
		}()).Masked(), true
	}
	if a, err := netip.ParseAddr(s); err == nil && a.Zone() == "" {
		a = a.Unmap()
		return netip.PrefixFrom(a, a.BitLen()), true
	}
	return netip.Prefix{}, false
}

func newC10Policy(allow, deny []string) c10Policy {
	var p c10Policy
	for _, s := range allow {
		if pf, ok := c10ParseEntry(s); ok {
			p.allow = append(p.allow, pf)
		} else {
			p.malformed = true
		}
	}
	for _, s := range deny {
		if pf, ok := c10ParseEntry(s); ok {
			p.deny = append(p.deny, pf)
		} else {
			p.malformed = true
		}
	}
	return p
}

// decide: +1 must serve, -1 must refuse, 0 either (only "must not serve what the lists refuse" is asserted)
func (p c10Policy) decide(peer string, nAllowCfg int) int {
	host := peer
	if ap, err := netip.ParseAddrPort(peer); err == nil {
		host = ap.Addr().String()
	} else if h, _, ok := splitLast(peer); ok {
		host = strings.Trim(h, "[]")
	}
	a, err := netip.ParseAddr(host)
	if err != nil {
		return -1 // unparsable peers are refused
	}
	zoned := a.Zone() != ""
	a = a.WithZone("").Unmap()
	refuse := false
	for _, d := range p.deny {
		if d.Contains(a) {
			refuse = true
		}
	}
	if !refuse && nAllowCfg > 0 {
		in := false
		for _, al := range p.allow {
			if al.Contains(a) {
				in = true
			}
		}
		if !in {
			refuse = true
		}
	}
	if refuse {
		return -1
	}
	if p.malformed || zoned {
		return 0 // fail-closed is allowed, serving is only allowed because the well-formed part permits it
	}
	return 1
}

func splitLast(s string) (string, string, bool) {
	i := strings.LastIndexByte(s, ':')
	if i < 0 {
		return s, "", false
	}
	return s[:i], s[i+1:], true
}

func c10RandPrefix(r *rand.Rand) string {
	switch r.Intn(10) {
	case 0:
		return fmt.Sprintf("10.%d.0.0/16", r.Intn(4))
	case 1:
		return fmt.Sprintf("10.%d.%d.%d", r.Intn(4), r.Intn(3), r.Intn(4))
	case 2:
		return fmt.Sprintf("%d.0.0.0/%d", []int{10, 172, 192, 0}[r.Intn(4)], []int{0, 1, 7, 8}[r.Intn(4)])
	case 3:
		return fmt.Sprintf("2001:db8:%x::/%d", r.Intn(4), []int{32, 48, 64, 128}[r.Intn(4)])
	case 4:
		return fmt.Sprintf("2001:db8:%x::%x", r.Intn(4), r.Intn(4))
	case 5:
		return []string{"127.0.0.1", "::1", "0.0.0.0/0", "::/0", "127.0.0.0/8", "fe80::/10", "::ffff:10.0.0.0/104", "192.168.1.0/24"}[r.Intn(8)]
	case 6:
		return fmt.Sprintf("192.168.%d.%d/%d", r.Intn(3), r.Intn(256), 24+r.Intn(9))
	case 7:
		return fmt.Sprintf("10.%d.%d.%d/%d", r.Intn(4), r.Intn(3), r.Intn(4), 29+r.Intn(4))
	case 8:
		// IPv4-mapped spellings of IPv4 addresses and networks
		return []string{fmt.Sprintf("::ffff:10.%d.%d.%d", r.Intn(4), r.Intn(3), r.Intn(4)), fmt.Sprintf("::ffff:10.%d.0.0/112", r.Intn(4)), "::ffff:0:0/96"}[r.Intn(3)]
	default:
		return fmt.Sprintf("10.%d.%d.%d", r.Intn(4), r.Intn(3), r.Intn(4))
	}
}

var c10Malformed = []string{"not-an-ip", "10.0.0.0/33", "10.0.0/8", "", "2001:db8::/129", "10.0.0.1/", "/24", "300.1.1.1", "10.0.0.0/8 ", "fe80::1%eth0"}

func c10RandPeer(r *rand.Rand) string {
	port := 1024 + r.Intn(60000)
	switch r.Intn(12) {
	case 0, 1, 2:
		return fmt.Sprintf("10.%d.%d.%d:%d", r.Intn(4), r.Intn(3), r.Intn(4), port)
	case 3:
		return fmt.Sprintf("192.168.%d.%d:%d", r.Intn(3), r.Intn(256), port)
	case 4:
		return fmt.Sprintf("[2001:db8:%x::%x]:%d", r.Intn(4), r.Intn(4), port)
	case 5:
		return fmt.Sprintf("[::ffff:10.%d.%d.%d]:%d", r.Intn(4), r.Intn(3), r.Intn(4), port)
	case 6:
		return []string{"127.0.0.1:9", "[::1]:9", "8.8.8.8:53", "[fe80::1%eth0]:7", "172.16.5.5:1", "[2001:db8::1%lo]:3"}[r.Intn(6)]
	case 7:
		return fmt.Sprintf("10.%d.%d.%d", r.Intn(4), r.Intn(3), r.Intn(4)) // no port
	case 8:
		return []string{"", "junk", "1.2.3:80", "10.1.2.3:abc", ":80", "[]:1", "999.1.1.1:1", "10.1.2.3.4:5", "localhost:80", "@"}[r.Intn(10)]
	default:
		return fmt.Sprintf("%d.%d.%d.%d:%d", r.Intn(224), r.Intn(256), r.Intn(256), r.Intn(256), port)
	}
}

type c10Req struct {
	method, path, body string
	mutating           bool
}

var c10Reqs = []c10Req{
	{"GET", "/v1/backends", "", false},
	{"GET", "/v1/metrics", "", false},
	{"POST", "/v1/backends/add", `{"name":"evil","address":"http://127.0.0.1:9","weight":1}`, true},
	{"POST", "/v1/backends/remove", `{"name":"b0"}`, true},
	{"DELETE", "/v1/backends/remove", `{"name":"b0"}`, true},
	{"POST", "/v1/strategy", `{"strategy":"ip_hash"}`, true},
	{"PUT", "/v1/strategy", `{"strategy":"ip_hash"}`, false},
	{"GET", "/v1/backends/", "", false},
	{"GET", "/v1/", "", false},
	{"GET", "/", "", false},
	{"POST", "/v1/backends", "", false},
	{"GET", "/v1/backends/add", "", false},
	{"OPTIONS", "/v1/metrics", "", false},
	{"OPTIONS", "/v1/backends", "", false},
	{"OPTIONS", "/v1/backends/add", `{"name":"evil","address":"http://127.0.0.1:9"}`, true},
	{"OPTIONS", "/v1/strategy", `{"strategy":"ip_hash"}`, true},
	{"HEAD", "/v1/metrics", "", false},
	{"HEAD", "/v1/backends", "", false},
	{"PATCH", "/v1/strategy", `{"strategy":"ip_hash"}`, true},
	{"TRACE", "/v1/backends", "", false},
	{"CONNECT", "/v1/backends/remove", `{"name":"b0"}`, true},
	{"get", "/v1/metrics", "", false},
	{"PROPFIND", "/v1/backends", "", false},
}

func c10State(sys *Sys) string {
	return fmt.Sprintf("%v|%s", sys.LB.ListBackends(), sys.Cfg.LoadBalancer.Strategy)
}

func init() {
	vh.AddPart("C10", "policy", "plain", vh.Opts{Shards: 16, Procs: 1, TimeoutS: 300, TimeoutSThorough: 2000},
		func(e *vh.Env) []c10Case {
			var cs []c10Case
			r := e.Rand("c10cases")
			for i := 0; i < e.Pick(4000, 40000); i++ {
				c := c10Case{Idx: i}
				if i%3 != 0 {
					c.Token = []string{"s3cret", "a", "tok en", "Bearer", "x=y;z", strings.Repeat("t", 64)}[r.Intn(6)]
				}
				if i%4 != 1 {
					for k := r.Intn(4); k > 0; k-- {
						c.Allow = append(c.Allow, c10RandPrefix(r))
					}
					for k := r.Intn(4); k > 0; k-- {
						c.Deny = append(c.Deny, c10RandPrefix(r))
					}
					if i%7 == 0 { // a malformed entry at a random position of either list
						m := c10Malformed[r.Intn(len(c10Malformed))]
						if r.Intn(2) == 0 {
							p := r.Intn(len(c.Allow) + 1)
							c.Allow = append(c.Allow[:p:p], append([]string{m}, c.Allow[p:]...)...)
						} else {
							p := r.Intn(len(c.Deny) + 1)
							c.Deny = append(c.Deny[:p:p], append([]string{m}, c.Deny[p:]...)...)
						}
					}
				}
				if i%35 == 5 { // a list whose only entries are blank
					blank := []string{"", "   "}[r.Intn(2)]
					if r.Intn(2) == 0 {
						c.Allow, c.Deny = []string{blank}, nil
					} else {
						c.Allow, c.Deny = nil, []string{blank, ""}
					}
				}
				c.YAML = i%5 == 2 || i%35 == 5
				cs = append(cs, c)
			}
			return cs
		},
		func(e *vh.Env, c c10Case, o *vh.Out) {
			o.Need("requests", "served", "refused_401", "refused_403", "forged_header_pairs", "configs_loaded_from_yaml")
			r := e.Rand("c10", c.Idx)
			cfg := baseConfig("round_robin", nil)
			cfg.Backends = []config.BackendConfig{{Name: "b0", Address: "http://127.0.0.1:9", Weight: 2}, {Name: "b1", Address: "http://127.0.0.1:9", Weight: 1}}
			cfg.AdminAPI = config.AdminAPIConfig{Enabled: true, Port: 9091, AuthToken: c.Token, IPAllowList: c.Allow, IPDenyList: c.Deny}
			if c.YAML {
				// the same configuration as the binary gets it: written as YAML and read back by config.LoadConfig
				doc := map[string]any{
					"server":    map[string]any{"port": 8080},
					"backends":  []map[string]any{{"name": "b0", "address": "http://127.0.0.1:9", "weight": 2}, {"name": "b1", "address": "http://127.0.0.1:9", "weight": 1}},
					"logging":   map[string]any{"level": "fatal"},
					"admin_api": map[string]any{"enabled": true, "port": 9091, "auth_token": c.Token, "ip_allow_list": c.Allow, "ip_deny_list": c.Deny},
				}
				text, _ := yaml.Marshal(doc)
				loaded, err := c18LoadText(e, string(text), fmt.Sprintf("c10-%d", c.Idx))
				if err == nil {
					cfg = loaded
					o.Obs("configs_loaded_from_yaml", 1)
				} else {
					o.Obs("yaml_configs_rejected_by_validation", 1) // a refused configuration serves nobody: nothing to compare
				}
			}
			sys, err := startSys(cfg, nil, false)
			if err != nil {
				o.Inconcl("startSys: %v", err)
				return
			}
			defer sys.Close()
			h := adminapi.NewMux(sys.LB, cfg, sys.LB.GetMetricsCollector())
			pol := newC10Policy(c.Allow, c.Deny)
			filtered := len(c.Allow) > 0 || len(c.Deny) > 0
			auths := []string{"", "Bearer " + c.Token, "bearer " + c.Token, "Bearer  " + c.Token, "Bearer " + c.Token + "x", "Bearer", "Bearer ", "Basic " + c.Token, c.Token,
				"BEARER " + c.Token, "Bearer\t" + c.Token, "Bearer " + c.Token + ", Bearer " + c.Token, "Bearer x" + c.Token, "Token " + c.Token}
			if len(c.Token) > 1 {
				auths = append(auths, "Bearer "+c.Token[:len(c.Token)-1], "Bearer "+c.Token[1:], "Bearer "+strings.ToUpper(c.Token))
			}
			ctxBase := fmt.Sprintf("token=%q allow=%v deny=%v", c.Token, c.Allow, c.Deny)
			o.Eval(1)
			o.Distinct(vh.J(c))
			for i := 0; i < 48; i++ {
				peer := c10RandPeer(r)
				rq := c10Reqs[r.Intn(len(c10Reqs))]
				auth := auths[r.Intn(len(auths))]
				if r.Intn(3) == 0 {
					auth = "Bearer " + c.Token
				}
				var hdr [][2]string
				if auth != "" {
					hdr = append(hdr, [2]string{"Authorization", auth})
				}
				second := ""
				if r.Intn(10) == 0 && auth != "" {
					second = "Bearer " + c.Token
					hdr = append(hdr, [2]string{"Authorization", second}) // a second Authorization line: only the first counts
				}
				if rq.method == "OPTIONS" && i%2 == 0 {
					// dressed as a browser's CORS preflight: no exemption from the token for that
					hdr = append(hdr, [2]string{"Origin", "https://console.example"}, [2]string{"Access-Control-Request-Method", "POST"}, [2]string{"Access-Control-Request-Headers", "authorization"})
					o.Obs("preflight_shaped_requests", 1)
				}
				dec := 1
				if filtered {
					dec = pol.decide(peer, len(c.Allow))
				}
				authOK := c.Token == "" || auth == "Bearer "+c.Token
				before := c10State(sys)
				ctx := fmt.Sprintf("%s peer=%q %s %s Authorization=%q", ctxBase, peer, rq.method, rq.path, auth)
				// the same request with and without forged client-address headers must be decided identically
				forged := [][2]string{{"X-Forwarded-For", []string{"127.0.0.1", "10.0.0.1", "8.8.8.8", "::1", "junk"}[r.Intn(5)]}, {"X-Real-IP", []string{"127.0.0.1", "192.168.1.1", "2001:db8::1"}[r.Intn(3)]}}
				w1 := adminDoPeer(h, rq.method, rq.path, peer, hdr, rq.body)
				o.Obs("requests", 1)
				st1 := c10State(sys)
				// a filter that fails closed because of a malformed list entry may say so with a server error instead of 403
				filterRefusal := w1.Code == 403 || (filtered && (dec == 0 || pol.malformed) && w1.Code >= 500)
				served := w1.Code != 401 && !filterRefusal && w1.Code != 404
				body := w1.Body.String()
				// health endpoint: no token needed, but the IP filter still applies
				registered := map[string]bool{"/v1/metrics": true, "/v1/backends": true, "/v1/backends/add": true, "/v1/backends/remove": true, "/v1/strategy": true}
				needAuth := registered[rq.path] && c.Token != ""
				if !registered[rq.path] && !filterRefusal && w1.Code != 404 && w1.Code != 401 {
					o.Viol("C10|unregistered-path-served", fmt.Sprintf("%s: a path that is not an admin endpoint answered %d %q", ctx, w1.Code, trunc(body, 60)), nil)
					return
				}
				switch {
				case dec == -1 && !filterRefusal:
					o.Viol("C10|served-refused-peer", fmt.Sprintf("%s: the lists refuse this peer but the answer was %d", ctx, w1.Code), nil)
					return
				case dec == 1 && w1.Code == 403:
					o.Viol("C10|refused-permitted-peer", fmt.Sprintf("%s: the lists permit this peer but it got 403", ctx), nil)
					return
				}
				if filterRefusal {
					o.Obs("refused_403", 1)
				} else if needAuth && !authOK {
					if w1.Code != 401 {
						o.Viol("C10|served-without-token", fmt.Sprintf("%s: answered %d without the exact bearer token", ctx, w1.Code), nil)
						return
					}
					o.Obs("refused_401", 1)
				} else if w1.Code == 401 {
					o.Viol("C10|refused-with-token", fmt.Sprintf("%s: exact token presented but got 401", ctx), nil)
					return
				} else {
					o.Obs("served", 1)
				}
				if !served {
					if st1 != before {
						o.Viol("C10|state-changed-by-refused-request", fmt.Sprintf("%s: answered %d but the balancer state changed: %s -> %s", ctx, w1.Code, before, st1), nil)
						return
					}
					// "reveals nothing": no backend name or address, no counter, no strategy, not the token (an error object as such reveals nothing)
					reveals := false
					for _, tok := range []string{"b0", "b1", "127.0.0.1", "total_requests", "healthy", "weight", "round_robin", "active_connections"} {
						if strings.Contains(body, tok) {
							reveals = true
						}
					}
					if len(c.Token) >= 6 && strings.Contains(body, c.Token) {
						reveals = true
					}
					if reveals {
						o.Viol("C10|refusal-reveals-data", fmt.Sprintf("%s: refusal body %q", ctx, trunc(body, 80)), nil)
						return
					}
				}
				// undo an accepted mutation so that later requests see the same state
				if served && rq.mutating && st1 != before {
					sys.Close()
					cfg.LoadBalancer.Strategy = "round_robin"
					sys2, err := startSys(cfg, nil, false)
					if err != nil {
						return
					}
					sys = sys2
					h = adminapi.NewMux(sys.LB, cfg, sys.LB.GetMetricsCollector())
					continue
				}
				if !rq.mutating || !served {
					w2 := adminDoPeer(h, rq.method, rq.path, peer, append(append([][2]string{}, hdr...), forged...), rq.body)
					o.Obs("forged_header_pairs", 1)
					if (w2.Code == 403) != (w1.Code == 403) || (w2.Code == 401) != (w1.Code == 401) {
						o.Viol("C10|decision-depends-on-client-headers", fmt.Sprintf("%s: %d without and %d with forged %v", ctx, w1.Code, w2.Code, forged), nil)
						return
					}
				}
			}
			// /v1/health needs no token
			if c.Token != "" {
				w := adminDo(h, "GET", "/v1/health", "127.0.0.1:5", nil, "")
				dec := 1
				if filtered {
					dec = pol.decide("127.0.0.1:5", len(c.Allow))
				}
				if dec == 1 && w.Code != 200 {
					o.Viol("C10|health-needs-token", fmt.Sprintf("%s: /v1/health without token answered %d", ctxBase, w.Code), nil)
				}
				o.Obs("health_checked", 1)
			}
			if c.Idx == 7 {
				o.Sample(map[string]any{"part": "policy", "case": c, "requests": 48, "auth_spellings": len(auths)})
			}
		})
}

// adminDoPeer is adminDo with the peer address set verbatim (also when empty).
func adminDoPeer(h http.Handler, method, path, remote string, hdr [][2]string, body string) *httptest.ResponseRecorder {
	r := httptest.NewRequest(method, path, strings.NewReader(body))
	r.RemoteAddr = remote
	for _, x := range hdr {
		r.Header.Add(x[0], x[1])
	}
	w := httptest.NewRecorder()
	h.ServeHTTP(w, r)
	return w
}
