package main

import (
	"fmt"
	"os"
	"os/exec"
	"time"

	vh "github.com/0xReLogic/Helios/internal/verifh"
)

type stCase struct {
	Name string `json:"name"`
}

func selftestExchange(o *vh.Out) {
	bes := newBackends(2)
	defer closeBackends(bes)
	sys, err := startSys(baseConfig("round_robin", bes), bes, true)
	if err != nil {
		o.Inconcl("startSys: %v", err)
		return
	}
	defer sys.Close()
	t0 := time.Now()
	for i := 0; i < 20; i++ {
		sc := vh.Script{Status: 201, Headers: [][2]string{{"X-A", "1"}}, Steps: []vh.Step{{Op: "write", N: 1000}}, Framing: "chunked", Seed: i}
		rs := vh.Do(sys.Addr, vh.RawReq{Method: "POST", Target: "/x", BodyLen: 10, Headers: [][2]string{{vh.ScriptHeader, sc.Encode()}}})
		o.Eval(1)
		if rs.Status != 201 || rs.BodyLen != 1000 {
			o.Viol("SELFTEST|exchange", fmt.Sprintf("status=%d len=%d err=%s", rs.Status, rs.BodyLen, rs.Err), nil)
		}
		o.Distinct(fmt.Sprint("ex", i))
	}
	if vh.IsSim && vh.Took(time.Since(t0)) {
		o.Anomaly()
	}
	o.Obs("exchanges", 20)
}

func init() {
	gen := func(e *vh.Env) []stCase { return []stCase{{"run"}} }
	vh.AddPart("SELFTEST", "sim", "sim", vh.Opts{TimeoutS: 120}, gen, func(e *vh.Env, c stCase, o *vh.Out) {
		o.Need("exchanges", "virtual_hours_slept")
		if !vh.IsSim {
			o.Viol("SELFTEST|not-sim", "sim flavour was not built with faketime", nil)
			return
		}
		w0 := vh.WallNS()
		t0 := time.Now()
		time.Sleep(100 * time.Hour)
		if d := time.Since(t0); d < 100*time.Hour {
			o.Viol("SELFTEST|sleep", "virtual sleep too short", d.String())
		}
		if wall := vh.WallNS() - w0; wall > int64(5*time.Second) {
			o.Viol("SELFTEST|wall", "virtual sleep took real time", wall)
		}
		o.Obs("virtual_hours_slept", 100)
		selftestExchange(o)
		o.Sample("sim: slept 100 virtual hours, 20 proxied exchanges at 0 virtual ns")
	})
	vh.AddPart("SELFTEST", "race", "race", vh.Opts{TimeoutS: 120}, gen, func(e *vh.Env, c stCase, o *vh.Out) {
		o.Need("exchanges")
		if !vh.IsRace {
			o.Viol("SELFTEST|not-race", "race flavour was not built with -race", nil)
		}
		selftestExchange(o)
		o.Sample("race: 20 proxied exchanges under the race detector")
	})
	vh.AddPart("SELFTEST", "bin", "plain", vh.Opts{TimeoutS: 120, NeedBin: true}, gen, func(e *vh.Env, c stCase, o *vh.Out) {
		o.Need("exchanges", "bin_runs")
		selftestExchange(o)
		cmd := exec.Command(e.BinPath, "-config", "/nonexistent/helios.yaml")
		err := cmd.Run()
		o.Eval(1)
		if err == nil {
			o.Viol("SELFTEST|bin", "binary accepted a missing config file", nil)
		}
		if _, serr := os.Stat(e.BinPath); serr != nil {
			o.Viol("SELFTEST|bin-missing", serr.Error(), nil)
		}
		o.Obs("bin_runs", 1)
		o.Distinct("bin")
		o.Sample("bin: shipped binary built and exits non-zero on a missing config")
	})
}
