package main

import (
	"fmt"
	"net/http/httptest"
	"strings"
	"sync"
	"time"

	"github.com/0xReLogic/Helios/internal/config"
	vh "github.com/0xReLogic/Helios/internal/verifh"
)

// C16: request-ID / trace-ID propagation.

type c16Case struct {
	Strategy string `json:"strategy"`
	ReqOn    bool   `json:"request_id"`
	TraceOn  bool   `json:"trace"`
	Custom   bool   `json:"custom_names"`
	Idx      int    `json:"idx"`
}

var c16Values = []struct {
	label   string
	present bool
	v       string
}{
	{"absent", false, ""},
	{"plain", true, "abc-123"},
	{"empty", true, ""},
	{"spaces", true, "   "},
	{"padded", true, "  padded-id  "},
	{"long", true, strings.Repeat("L", 1024)},
	{"punct", true, `id:{a=b};"q",<x>|~!@#$%^&*()`},
	{"inner space", true, "two words"},
	{"unicode", true, "ïd-√"},
	{"tab inside", true, "a\tb"},
}

func init() {
	vh.AddPart("C16", "paths", "sim", vh.Opts{Shards: 16, TimeoutS: 300, TimeoutSThorough: 1500},
		func(e *vh.Env) []c16Case {
			var cs []c16Case
			i := 0
			for _, st := range allStrategies {
				for _, ro := range []bool{true, false} {
					for _, to := range []bool{true, false} {
						for _, cu := range []bool{false, true} {
							for k := 0; k < e.Pick(1, 4); k++ {
								cs = append(cs, c16Case{st, ro, to, cu, i})
								i++
							}
						}
					}
				}
			}
			return cs
		},
		func(e *vh.Env, c c16Case, o *vh.Out) {
			o.Need("responses_checked", "generated_ids", "echoed_ids", "path_proxied", "path_429", "path_breaker", "path_nobackend", "path_413", "path_resp413", "path_401", "path_interim")
			bes := newBackends(2)
			defer closeBackends(bes)
			cfg := baseConfig(c.Strategy, bes)
			cfg.Logging.RequestID.Enabled, cfg.Logging.Trace.Enabled = c.ReqOn, c.TraceOn
			reqH, traceH := "X-Request-ID", "X-Trace-ID"
			if c.Custom {
				// configured spellings that are not in canonical MIME form as well (header names are case-insensitive)
				names := [][2]string{{"X-Corr-Id", "Traceparent-X"}, {"x-correlation-id", "X-B3-TraceID"}, {"X-Correlation-ID", "x-trace"}}[c.Idx%3]
				reqH, traceH = names[0], names[1]
				cfg.Logging.RequestID.Header, cfg.Logging.Trace.Header = " "+reqH+" ", traceH
			}
			cfg.RateLimit = config.RateLimitConfig{Enabled: true, MaxTokens: 40, RefillRate: 3600}
			cfg.CircuitBreaker = config.CircuitBreakerConfig{Enabled: true, FailureThreshold: 1, SuccessThreshold: 1, IntervalSeconds: 10, TimeoutSeconds: 5}
			cfg.Plugins = config.PluginsConfig{Enabled: true, Chain: []config.PluginConfig{
				{Name: "size_limit", Config: map[string]interface{}{"max_request_body": 100, "max_response_body": 2000}},
				{Name: "custom-auth", Config: map[string]interface{}{"apiKey": "k"}},
			}}
			sys, err := startSys(cfg, bes, true)
			if err != nil {
				o.Inconcl("startSys: %v", err)
				return
			}
			defer sys.Close()
			r := e.Rand("c16", c.Idx)
			cname := fmt.Sprintf("%s request_id=%v trace=%v custom=%v", c.Strategy, c.ReqOn, c.TraceOn, c.Custom)
			seen := map[string]bool{}
			type feat struct {
				name string
				on   bool
			}
			feats := []feat{{reqH, c.ReqOn}, {traceH, c.TraceOn}}
			nreq := 0
			// send issues one request on the given response path and checks both headers
			send := func(path string, vi, vj int) bool {
				vals := []int{vi, vj}
				var hdr [][2]string
				clientIP := fmt.Sprintf("10.16.%d.%d", c.Idx%200, nreq%250)
				nreq++
				hdr = append(hdr, [2]string{"X-Forwarded-For", clientIP})
				for k, f := range feats {
					if v := c16Values[vals[k]]; v.present {
						hdr = append(hdr, [2]string{f.name, v.v})
					}
				}
				rq := vh.RawReq{Method: "POST", Target: "/c16/" + path, BodyLen: 10, Headers: hdr, TimeoutMs: 30000, Instant: true}
				key := true
				switch path {
				case "proxied103":
					// the backend sends Early Hints before its answer
					rq.Headers = append(rq.Headers, [2]string{vh.ScriptHeader, vh.Script{Status: 200, Interim: []vh.Interim{{Code: 103, Headers: [][2]string{{"Link", "</s.css>; rel=preload"}}}}, Steps: []vh.Step{{Op: "write", N: 20}}}.Encode()})
				case "proxied500":
					rq.Headers = append(rq.Headers, [2]string{vh.ScriptHeader, vh.Script{Status: 500}.Encode()})
				case "p413":
					rq.BodyLen = 500
				case "r413":
					// the response is larger than max_response_body and its first write already exceeds the limit
					rq.Headers = append(rq.Headers, [2]string{vh.ScriptHeader, vh.Script{Status: 200, Framing: "cl", Steps: []vh.Step{{Op: "write", N: 9000}}}.Encode()})
				case "p401":
					key = false
				case "p429":
					rq.Headers[0] = [2]string{"X-Forwarded-For", "10.16.255.255"} // the exhausted client
				}
				if key {
					rq.Headers = append(rq.Headers, [2]string{"X-API-Key", "k"})
				}
				before := bes[0].Count() + bes[1].Count()
				rs := vh.Do(sys.Addr, rq)
				vh.Settle()
				var arr *vh.Arrival
				for _, b := range bes {
					as := b.Arrivals()
					if len(as) > 0 && bes[0].Count()+bes[1].Count() > before {
						a := as[len(as)-1]
						if arr == nil || a.At > arr.At {
							arr = &a
						}
					}
				}
				if bes[0].Count()+bes[1].Count() == before {
					arr = nil
				}
				want := map[string]int{"proxied": 200, "proxied103": 200, "proxied500": 500, "p413": 413, "r413": 413, "p401": 401, "p429": 429, "breaker": 503, "nobackend": 503}[path]
				ctx := fmt.Sprintf("[%s] path=%s %s=%s %s=%s", cname, path, reqH, c16Values[vi].label, traceH, c16Values[vj].label)
				if rs.Status != want {
					o.Inconcl("%s: expected status %d on this path, got %d %q", ctx, want, rs.Status, rs.Err)
					return true
				}
				o.Obs("path_"+map[string]string{"proxied": "proxied", "proxied103": "interim", "proxied500": "proxied", "p413": "413", "r413": "resp413", "p401": "401", "p429": "429", "breaker": "breaker", "nobackend": "nobackend"}[path], 1)
				for k, f := range feats {
					v := c16Values[vals[k]]
					sup := strings.TrimSpace(v.v) // HTTP itself trims optional whitespace around a field value
					got := rs.Get(f.name)
					var backendSaw []string
					if arr != nil {
						backendSaw = arr.Header.Values(f.name)
					}
					sig := func(kind string) string {
						return fmt.Sprintf("C16|%s|%s|%s", kind, map[bool]string{true: "request-id", false: "trace-id"}[k == 0], v.label)
					}
					if !f.on {
						// disabled: neither generated nor altered
						if len(got) != 0 {
							o.Viol(sig("disabled-but-set"), fmt.Sprintf("%s: %s is disabled but the response carries %q", ctx, f.name, got), nil)
							return false
						}
						if arr != nil {
							exp := []string(nil)
							if v.present {
								exp = []string{sup}
							}
							if strings.Join(backendSaw, "\x00") != strings.Join(exp, "\x00") {
								o.Viol(sig("disabled-but-altered"), fmt.Sprintf("%s: %s is disabled, client sent %q, backend saw %q", ctx, f.name, exp, backendSaw), nil)
								return false
							}
						}
						continue
					}
					if len(got) != 1 || got[0] == "" {
						o.Viol(sig("missing-on-response")+"|"+path, fmt.Sprintf("%s: the response (status %d) carries %s=%q, exactly one non-empty value expected", ctx, rs.Status, f.name, got), nil)
						return false
					}
					if arr != nil && (len(backendSaw) != 1 || backendSaw[0] != got[0]) {
						o.Viol(sig("backend-differs"), fmt.Sprintf("%s: backend saw %s=%q, client got %q", ctx, f.name, backendSaw, got[0]), nil)
						return false
					}
					if sup != "" {
						if got[0] != sup {
							o.Viol(sig("not-echoed"), fmt.Sprintf("%s: client supplied %q, response carries %q", ctx, sup, trunc(got[0], 80)), nil)
							return false
						}
						o.Obs("echoed_ids", 1)
					} else {
						if seen[f.name+"="+got[0]] {
							o.Viol(sig("duplicate-generated"), fmt.Sprintf("%s: generated id %q was handed out twice", ctx, got[0]), nil)
							return false
						}
						seen[f.name+"="+got[0]] = true
						o.Obs("generated_ids", 1)
					}
				}
				o.Obs("responses_checked", 1)
				return true
			}
			nv := len(c16Values)
			// proxied responses: all value pairs (first against all, diagonal, random)
			for i := 0; i < nv; i++ {
				if !send("proxied", i, (i*3+1)%nv) || !send("proxied", (i*7+2)%nv, i) {
					return
				}
			}
			for i := 0; i < e.Pick(10, 40); i++ {
				if !send("proxied", r.Intn(nv), r.Intn(nv)) {
					return
				}
			}
			// plugin rejections
			for i := 0; i < nv; i++ {
				if !send("p413", i, (i+1)%nv) || !send("p401", (i+2)%nv, i) {
					return
				}
				// a response cut by size_limit aborts the proxied exchange, which the breaker (threshold 1) counts:
				// wait out its timeout and let one good request close it again
				if !send("r413", (i+4)%nv, (i+6)%nv) {
					return
				}
				time.Sleep(6 * time.Second)
				if !send("proxied103", i, (i+1)%nv) {
					return
				}
				if !send("proxied", i, i) {
					return
				}
			}
			// limiter: exhaust one client, then 429
			for i := 0; i < 40; i++ {
				vh.Do(sys.Addr, vh.RawReq{Method: "GET", Target: "/burn", Headers: [][2]string{{"X-Forwarded-For", "10.16.255.255"}, {"X-API-Key", "k"}}, Instant: true})
			}
			for i := 0; i < nv; i++ {
				if !send("p429", i, (i+3)%nv) {
					return
				}
			}
			// no healthy backend
			for _, b := range sys.LB.VerifBackends() {
				sys.LB.MarkBackendUnhealthy(b, 3*time.Second)
			}
			for i := 0; i < nv; i += 2 {
				if !send("nobackend", i, (i+1)%nv) {
					return
				}
			}
			time.Sleep(4 * time.Second)
			// breaker: a 500 opens it (threshold 1), the following requests are rejected
			if !send("proxied500", 1, 0) {
				return
			}
			for i := 0; i < nv; i++ {
				if !send("breaker", i, (i+5)%nv) {
					return
				}
			}
			o.Eval(1)
			o.Distinct(vh.J(c))
			if c.Idx == 0 {
				o.Sample(map[string]any{"part": "paths", "case": c, "values": "absent, plain, empty, spaces, padded, 1 KB, punctuation, inner space, unicode, tab", "paths": "proxied 200/500, size_limit 413, custom-auth 401, limiter 429, no-backend 503, breaker 503"})
			}
		})

	// ---- uniqueness at one instant: under the virtual clock no time passes, so any scheme that relies on the
	// clock plus a bounded counter runs out within this burst
	type c16Burst struct {
		N int `json:"n"`
	}
	vh.AddPart("C16", "unique-burst", "sim", vh.Opts{TimeoutS: 300},
		func(e *vh.Env) []c16Burst { return []c16Burst{{e.Pick(150000, 1200000)}} },
		func(e *vh.Env, c c16Burst, o *vh.Out) {
			o.Need("burst_ids")
			cfg := baseConfig("round_robin", nil)
			cfg.Backends = []config.BackendConfig{{Name: "b0", Address: "http://127.0.0.1:9"}}
			cfg.Logging.RequestID.Enabled, cfg.Logging.Trace.Enabled = true, true
			cfg.Plugins = config.PluginsConfig{Enabled: true, Chain: []config.PluginConfig{{Name: "custom-auth", Config: map[string]interface{}{"apiKey": "k"}}}}
			sys, err := startSys(cfg, nil, false)
			if err != nil {
				o.Inconcl("startSys: %v", err)
				return
			}
			defer sys.Close()
			seen := make(map[string]struct{}, 2*c.N)
			req := httptest.NewRequest("GET", "/u", nil)
			for i := 0; i < c.N; i++ {
				w := httptest.NewRecorder()
				sys.Handler.ServeHTTP(w, req.Clone(req.Context()))
				for _, id := range []string{"r:" + w.Header().Get("X-Request-ID"), "t:" + w.Header().Get("X-Trace-ID")} {
					if _, dup := seen[id]; dup || len(id) <= 2 {
						o.Viol("C16|unique|duplicate-in-burst", fmt.Sprintf("identifier %q was handed out twice within a burst of %d requests at one instant (request %d)", id, c.N, i), nil)
						return
					}
					seen[id] = struct{}{}
				}
			}
			o.Eval(1)
			o.Obs("burst_ids", int64(len(seen)))
			o.Distinct(vh.J(c))
			o.Sample(map[string]any{"part": "unique-burst", "requests": c.N, "distinct_ids": len(seen)})
		})

	// ---- uniqueness of generated identifiers under concurrency
	type c16Uniq struct {
		G, N  int
		Round int `json:"round"`
	}
	vh.AddPart("C16", "unique", "race", vh.Opts{Procs: 16, TimeoutS: 300, TimeoutSThorough: 1500},
		func(e *vh.Env) []c16Uniq {
			var cs []c16Uniq
			for r := 0; r < e.Pick(2, 6); r++ {
				cs = append(cs, c16Uniq{64, e.Pick(12000, 100000), r})
			}
			cs = append(cs, c16Uniq{8, e.Pick(4000, 20000), 0}, c16Uniq{256, e.Pick(8000, 50000), 0})
			return cs
		},
		func(e *vh.Env, c c16Uniq, o *vh.Out) {
			o.Need("ids_generated")
			cfg := baseConfig("round_robin", nil)
			cfg.Backends = []config.BackendConfig{{Name: "b0", Address: "http://127.0.0.1:9"}}
			cfg.Logging.RequestID.Enabled, cfg.Logging.Trace.Enabled = true, true
			// custom-auth rejects before any backend is contacted: the ID middleware still runs for every request
			cfg.Plugins = config.PluginsConfig{Enabled: true, Chain: []config.PluginConfig{{Name: "custom-auth", Config: map[string]interface{}{"apiKey": "k"}}}}
			sys, err := startSys(cfg, nil, false)
			if err != nil {
				o.Inconcl("startSys: %v", err)
				return
			}
			defer sys.Close()
			per := c.N / c.G
			ids := make([][]string, c.G)
			var wg sync.WaitGroup
			start := make(chan struct{})
			for g := 0; g < c.G; g++ {
				g := g
				wg.Add(1)
				go func() {
					defer wg.Done()
					<-start
					for i := 0; i < per; i++ {
						w := httptest.NewRecorder()
						sys.Handler.ServeHTTP(w, httptest.NewRequest("GET", "/u", nil))
						ids[g] = append(ids[g], "r:"+w.Header().Get("X-Request-ID"), "t:"+w.Header().Get("X-Trace-ID"))
					}
				}()
			}
			close(start)
			wg.Wait()
			seen := make(map[string]struct{}, c.N*2)
			dups, empty := 0, 0
			example := ""
			for _, l := range ids {
				for _, id := range l {
					if len(id) <= 2 {
						empty++
						continue
					}
					if _, ok := seen[id]; ok {
						dups++
						example = id
					}
					seen[id] = struct{}{}
				}
			}
			o.Eval(1)
			o.Obs("ids_generated", int64(len(seen)))
			o.Distinct(vh.J(c))
			if empty > 0 {
				o.Viol("C16|unique|empty-id", fmt.Sprintf("%d responses carried no generated identifier", empty), nil)
			}
			if dups > 0 {
				o.Viol("C16|unique|duplicate", fmt.Sprintf("%d goroutines x %d requests: %d generated identifiers were handed out more than once (e.g. %s)", c.G, per, dups, example), nil)
			}
			if c.Round == 0 && c.G == 64 {
				o.Sample(map[string]any{"part": "unique", "case": c, "distinct_ids": len(seen)})
			}
		})
}
