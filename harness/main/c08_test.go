package main

import (
	"fmt"
	"strings"
	"time"

	"github.com/0xReLogic/Helios/internal/circuitbreaker"
	"github.com/0xReLogic/Helios/internal/config"
	"github.com/0xReLogic/Helios/internal/loadbalancer"
	vh "github.com/0xReLogic/Helios/internal/verifh"
)

// C08: bounded recovery. From every breaker state reached by a bounded history
// (sequential, concurrent, with panics), once requests would succeed again:
// advance timeout+1s, then issue successful requests one after another; the
// breaker must be CLOSED and admitting within success_threshold+max_requests+2
// requests, every call must return, and the balancer's real state-change
// callback (logging + metrics) must not block.

type c08Cfg struct {
	FT, ST int
	MR     int    `json:"mr"` // 0 = max_requests left unset in the configuration
	Timing string `json:"timing"`
	Prefix string `json:"prefix"`
	Depth  int    `json:"depth"`
	Random int    `json:"random,omitempty"`
}

// c08Balancer builds the breaker exactly as the product does: config -> Validate -> NewLoadBalancer.
func c08Balancer(c c08Cfg) (*loadbalancer.LoadBalancer, *config.Config, error) {
	cfg := baseConfig("round_robin", nil)
	cfg.Backends = []config.BackendConfig{{Name: "b0", Address: "http://127.0.0.1:9", Weight: 1}}
	interval, timeout, _ := c07Timing(c.Timing)
	cfg.CircuitBreaker = config.CircuitBreakerConfig{Enabled: true, MaxRequests: c.MR, IntervalSeconds: int(interval / time.Second), TimeoutSeconds: int(timeout / time.Second), FailureThreshold: c.FT, SuccessThreshold: c.ST}
	if err := cfg.Validate(); err != nil {
		return nil, cfg, err
	}
	lb, err := loadbalancer.NewLoadBalancer(cfg)
	return lb, cfg, err
}

func c08MetricsState(lb *loadbalancer.LoadBalancer) string {
	m := lb.GetMetricsCollector().GetMetrics()
	for _, cb := range m.CircuitBreakerMetrics {
		return cb.State
	}
	return ""
}

// c08Recover runs the recovery script; returns false after recording a violation.
func c08Recover(cb *circuitbreaker.CircuitBreaker, lb *loadbalancer.LoadBalancer, c c08Cfg, effMR int, hist string, o *vh.Out) bool {
	_, timeout, _ := c07Timing(c.Timing)
	time.Sleep(timeout + time.Second)
	bound := c.ST + effMR + 2
	for i := 1; i <= bound; i++ {
		out, odd := execOnce(cb, 'S')
		o.Obs("recovery_requests", 1)
		if odd != "" {
			o.Viol("C08|recover|odd", fmt.Sprintf("ft=%d st=%d mr=%d timing=%s after %q: recovery request %d: %s", c.FT, c.ST, c.MR, c.Timing, hist, i, odd), nil)
			return false
		}
		if out == vh.RanOK && cb.State() == circuitbreaker.StateClosed {
			o.Obs("recovered", 1)
			o.Obs(fmt.Sprintf("recovered_after_%d", i), 1)
			// closed must now admit everything
			if out2, _ := execOnce(cb, 'S'); out2 != vh.RanOK {
				o.Viol("C08|recover|closed-but-rejecting", fmt.Sprintf("ft=%d st=%d mr=%d after %q: breaker CLOSED but next request %s", c.FT, c.ST, c.MR, hist, out2), nil)
				return false
			}
			if lb != nil {
				if ms := c08MetricsState(lb); ms != "" && ms != "CLOSED" {
					o.Viol("C08|recover|metrics-stale", fmt.Sprintf("ft=%d st=%d mr=%d after %q: breaker is CLOSED but /metrics reports %s", c.FT, c.ST, c.MR, hist, ms), nil)
					return false
				}
			}
			return true
		}
	}
	mrTxt := fmt.Sprint(c.MR)
	if c.MR == 0 {
		mrTxt = "unset"
	}
	rel := "mr>=st"
	if effMR < c.ST {
		rel = "mr<st"
	}
	o.Viol(fmt.Sprintf("C08|recover|locked-out|%s", rel), fmt.Sprintf("accepted config ft=%d st=%d max_requests=%s timing=%s: after history %q, timeout+1s and %d successful attempts the breaker is %s and still refusing", c.FT, c.ST, mrTxt, c.Timing, hist, bound, cb.State()),
		map[string]any{"history": hist, "state": cb.State().String()})
	return false
}

func init() {
	vh.AddPart("C08", "recover-seq", "sim", vh.Opts{Shards: 16, TimeoutS: 300, TimeoutSThorough: 3000},
		func(e *vh.Env) []c08Cfg {
			var cs []c08Cfg
			depth := e.Pick(5, 7)
			for ft := 1; ft <= 3; ft++ {
				for st := 1; st <= 3; st++ {
					for mr := 0; mr <= 3; mr++ {
						for _, tm := range []string{"A", "B"} {
							for i := 0; i < len(c07Events); i++ {
								cs = append(cs, c08Cfg{FT: ft, ST: st, MR: mr, Timing: tm, Prefix: string(c07Events[i]), Depth: depth})
							}
							cs = append(cs, c08Cfg{FT: ft, ST: st, MR: mr, Timing: tm, Depth: depth + 6, Random: e.Pick(30, 300)})
						}
					}
				}
			}
			return cs
		},
		func(e *vh.Env, c c08Cfg, o *vh.Out) {
			o.Need("recovery_requests", "recovered", "configs_accepted")
			if _, _, err := c08Balancer(c); err != nil {
				// validation refuses this configuration: nothing to require of it
				o.Obs("configs_rejected_by_validation", 1)
				o.Obs("configs_accepted", 0)
				return
			}
			o.Obs("configs_accepted", 1)
			run := func(seq string) {
				lb, _, err := c08Balancer(c)
				if err != nil {
					o.Inconcl("NewLoadBalancer: %v", err)
					return
				}
				cb := lb.VerifBreaker()
				effMR := c.MR
				if effMR == 0 {
					// unset: whatever the product defaults to; the acceptor is told the value the product documents (success_threshold or 1)
					effMR = 0
				}
				// run the history (the C07 acceptor needs the effective budget; for "unset" we do not assert the safety bound here)
				mc := c07Seq{FT: c.FT, ST: c.ST, MR: effMR, Timing: c.Timing}
				if effMR == 0 {
					mc.MR = 1 << 20
				}
				_, _, ok := c07RunSeqOn(cb, mc, seq, o, "C08")
				o.Eval(1)
				if !ok {
					return
				}
				eff := c.MR
				if eff == 0 {
					eff = c.ST
				}
				c08Recover(cb, lb, c, eff, seq, o)
			}
			if c.Random > 0 {
				r := e.Rand("c08seq", c.FT, c.ST, c.MR, c.Timing)
				for i := 0; i < c.Random; i++ {
					b := make([]byte, c.Depth)
					for k := range b {
						b[k] = c07Events[r.Intn(len(c07Events))]
					}
					run(string(b))
					o.Distinct(fmt.Sprintf("%v|%s", c, b))
				}
			} else {
				n := int64(0)
				c07Enumerate(c.Prefix, c.Depth, func(seq string) { run(seq); n++ })
				o.DistinctCount(n)
			}
			if c.FT == 2 && c.ST == 2 && c.MR == 0 && c.Prefix == "F" && c.Timing == "A" {
				o.Sample(map[string]any{"part": "recover-seq", "config": c, "example_history": "FFTSF", "then": "advance timeout+1s; successful requests until CLOSED (bound st+mr+2)"})
			}
		})

	// concurrent histories: the trips and half-open trials come from concurrent requests
	type c08Conc struct {
		FT, ST, MR int
		Actors     string `json:"actors"`
		Bound      int    `json:"bound"`
		Max        int    `json:"max"`
	}
	vh.AddPart("C08", "recover-conc", "sim", vh.Opts{NoConfirm: true, Shards: 16, TimeoutS: 300, TimeoutSThorough: 3000},
		func(e *vh.Env) []c08Conc {
			var cs []c08Conc
			for _, cf := range [][3]int{{1, 1, 1}, {2, 1, 1}, {1, 2, 2}, {2, 2, 3}, {1, 1, 0}, {1, 2, 0}} {
				for _, a := range []string{"FF", "SF", "PF", "PP", "FS"} {
					cs = append(cs, c08Conc{cf[0], cf[1], cf[2], a, -1, e.Pick(600, 8000)})
				}
				for _, a := range []string{"FFS", "PFS", "FPF"} {
					cs = append(cs, c08Conc{cf[0], cf[1], cf[2], a, 2, e.Pick(600, 8000)})
				}
			}
			return cs
		},
		func(e *vh.Env, c c08Conc, o *vh.Out) {
			o.Need("schedules", "recovered")
			cc := c08Cfg{FT: c.FT, ST: c.ST, MR: c.MR, Timing: "A"}
			eff := c.MR
			if eff == 0 {
				eff = c.ST
			}
			if _, _, err := c08Balancer(cc); err != nil {
				o.Obs("configs_rejected_by_validation", 1)
				o.Obs("schedules", 0)
				return
			}
			for _, phase := range []string{"closed", "half"} {
				phase := phase
				world := func(s *vh.Sched) func(*vh.Sched, vh.SchedResult) {
					lb, _, err := c08Balancer(cc)
					if err != nil {
						return nil
					}
					cb := lb.VerifBreaker()
					if phase == "half" {
						for i := 0; i < c.FT; i++ {
							execOnce(cb, 'F')
						}
						time.Sleep(31 * time.Second)
					}
					for i := 0; i < len(c.Actors); i++ {
						ev := c.Actors[i]
						s.Go(func() { execOnce(cb, ev) })
					}
					return func(s *vh.Sched, r vh.SchedResult) {
						o.Obs("schedules", 1)
						if r.Deadlock {
							o.Viol("C08|conc|deadlock", fmt.Sprintf("ft=%d st=%d mr=%d %s actors=%s: requests blocked forever %v; trace %v", c.FT, c.ST, c.MR, phase, c.Actors, r.Stuck, s.Trace), map[string]any{"trace": s.Trace, "prefix": s.Choices})
							return
						}
						c08Recover(cb, lb, cc, eff, fmt.Sprintf("%s+concurrent(%s) trace=%s", phase, c.Actors, strings.Join(s.Trace, " ")), o)
					}
				}
				n, traces, _ := vh.Explore(world, c.Bound, c.Max, 400, 0)
				o.Eval(int64(n))
				for t := range traces {
					o.Distinct(fmt.Sprintf("%v|%s|%s", c, phase, t))
				}
				o.Obs("distinct_interleavings", int64(len(traces)))
			}
			if c.Actors == "PF" && c.FT == 2 {
				o.Sample(map[string]any{"part": "recover-conc", "case": c, "phases": "closed, half", "actors": "each letter is one concurrent Execute: F fails, S succeeds, P panics"})
			}
		})

	// system level: recovery observed through sockets, the real handler chain and /metrics
	vh.AddPart("C08", "recover-sys", "sim", vh.Opts{Shards: 16, TimeoutS: 400, TimeoutSThorough: 3000},
		func(e *vh.Env) []c07Sys {
			var cs []c07Sys
			fixed := []string{"ff", "xx", "rr", "ffTf", "xTx", "fTofTf", "fffTfTfTf", "uIuIu", "ffTo", "xfTx"}
			for si, st := range allStrategies {
				for ci, cf := range [][3]int{{1, 1, 1}, {2, 1, 0}, {2, 2, 2}, {3, 2, 0}, {2, 3, 3}, {1, 3, 0}} {
					for _, sq := range fixed {
						cs = append(cs, c07Sys{st, cf[0], cf[1], cf[2], sq})
					}
					r := e.Rand("c08sys", si, ci)
					for k := 0; k < e.Pick(4, 40); k++ {
						b := make([]byte, 4+r.Intn(8))
						for i := range b {
							b[i] = c07SysEvents[r.Intn(len(c07SysEvents))]
						}
						cs = append(cs, c07Sys{st, cf[0], cf[1], cf[2], string(b)})
					}
				}
			}
			return cs
		},
		func(e *vh.Env, c c07Sys, o *vh.Out) {
			o.Need("recovery_requests", "recovered")
			c08SysRun(e, c, o)
		})
}

func c08SysRun(e *vh.Env, c c07Sys, o *vh.Out) {
	bes := newBackends(2)
	defer closeBackends(bes)
	cfg := baseConfig(c.Strategy, bes)
	cfg.CircuitBreaker = config.CircuitBreakerConfig{Enabled: true, FailureThreshold: c.FT, SuccessThreshold: c.ST, MaxRequests: c.MR, IntervalSeconds: 10, TimeoutSeconds: 30}
	cfg.Server.Timeouts.BackendRead = 5
	cfg.Server.Timeouts.BackendDial = 2
	if err := cfg.Validate(); err != nil {
		o.Obs("configs_rejected_by_validation", 1)
		return
	}
	sys, err := startSys(cfg, bes, true)
	if err != nil {
		o.Inconcl("startSys: %v", err)
		return
	}
	defer sys.Close()
	adv := map[byte]time.Duration{'a': 3 * time.Second, 'I': 11 * time.Second, 'T': 31 * time.Second}
	scripts := map[byte]vh.Script{
		'o': {Status: 200, Steps: []vh.Step{{Op: "write", N: 10}}},
		'n': {Status: 404, Steps: []vh.Step{{Op: "write", N: 3}}},
		'f': {Status: 500, Steps: []vh.Step{{Op: "write", N: 5}}},
		'u': {Status: 503, Interim: []vh.Interim{{Code: 103, Headers: [][2]string{{"Link", "</x>"}}}}},
		'x': {Status: 200, Framing: "cl", Declared: 5000, Steps: []vh.Step{{Op: "write", N: 100}, {Op: "flush"}, {Op: "closeconn"}}},
		'r': {RawReset: true},
	}
	o.Eval(1)
	o.Distinct(vh.J(c))
	for i := 0; i < len(c.Seq); i++ {
		ev := c.Seq[i]
		if d, ok := adv[ev]; ok {
			time.Sleep(d)
			continue
		}
		sc := scripts[ev]
		rs := vh.Do(sys.Addr, vh.RawReq{Method: "GET", Target: "/r", Headers: [][2]string{{vh.ScriptHeader, sc.Encode()}}, TimeoutMs: 60000, Instant: true})
		vh.Settle()
		if rs.Err != "" && ev != 'x' {
			o.Viol("C08|sys|request-did-not-complete", fmt.Sprintf("%s seq=%s step %d (%c): %s after %v", c.Strategy, c.Seq, i, ev, rs.Err, time.Duration(rs.DurNS)), nil)
			return
		}
	}
	time.Sleep(31 * time.Second)
	eff := c.MR
	if eff == 0 {
		eff = c.ST
	}
	bound := c.ST + eff + 2
	ok := scripts['o']
	for i := 1; i <= bound; i++ {
		rs := vh.Do(sys.Addr, vh.RawReq{Method: "GET", Target: "/recover", Headers: [][2]string{{vh.ScriptHeader, ok.Encode()}}, TimeoutMs: 60000, Instant: true})
		vh.Settle()
		o.Obs("recovery_requests", 1)
		if rs.Err != "" {
			o.Viol("C08|sys|request-did-not-complete", fmt.Sprintf("%s seq=%s recovery request %d: %s", c.Strategy, c.Seq, i, rs.Err), nil)
			return
		}
		if rs.Status == 200 && sys.LB.VerifBreaker().State() == circuitbreaker.StateClosed {
			o.Obs("recovered", 1)
			m := sys.metricsJSON()
			if cbm, _ := m["circuit_breaker_metrics"].(map[string]any); len(cbm) > 0 {
				for _, v := range cbm {
					if st, _ := v.(map[string]any)["state"].(string); st != "CLOSED" {
						o.Viol("C08|sys|metrics-stale", fmt.Sprintf("%s seq=%s: breaker CLOSED, /metrics says %s", c.Strategy, c.Seq, st), nil)
					}
					o.Obs("metrics_state_checked", 1)
				}
			}
			return
		}
	}
	rel := "mr>=st"
	if eff < c.ST {
		rel = "mr<st"
	}
	mrTxt := fmt.Sprint(c.MR)
	if c.MR == 0 {
		mrTxt = "unset"
	}
	o.Viol("C08|sys|locked-out|"+rel, fmt.Sprintf("%s accepted config ft=%d st=%d max_requests=%s: after %q, 31s and %d successful attempts the breaker is %s", c.Strategy, c.FT, c.ST, mrTxt, c.Seq, bound, sys.LB.VerifBreaker().State()), nil)
}
