package main

import (
	"fmt"
	"net"
	"net/http"
	"net/http/httptest"
	"os"
	"os/exec"
	"path/filepath"
	"regexp"
	"strings"
	"sync"
	"time"

	"gopkg.in/yaml.v3"

	"github.com/0xReLogic/Helios/internal/config"
	"github.com/0xReLogic/Helios/internal/plugins"
	vh "github.com/0xReLogic/Helios/internal/verifh"
)

// C17: plugins run in the configured order, a rejection stops the chain, invalid chains prevent startup.

var (
	c17Mu      sync.Mutex
	c17Journal []string
)

func init() {
	// a tracing probe registered through the public registry: records enter/exit with its label
	plugins.RegisterBuiltin("verif-probe", func(name string, cfg map[string]interface{}) (plugins.Middleware, error) {
		label, _ := cfg["label"].(string)
		return func(next http.Handler) http.Handler {
			return http.HandlerFunc(func(w http.ResponseWriter, r *http.Request) {
				c17Mu.Lock()
				c17Journal = append(c17Journal, "enter "+label)
				c17Mu.Unlock()
				next.ServeHTTP(w, r)
				c17Mu.Lock()
				c17Journal = append(c17Journal, "exit "+label)
				c17Mu.Unlock()
			})
		}, nil
	})
}

// one occurrence of a built-in plugin with a valid configuration variant
type c17Plug struct {
	Name    string `json:"name"`
	Variant int    `json:"variant"`
}

func c17ValidConfig(p c17Plug) map[string]interface{} {
	switch p.Name {
	case "custom-auth":
		return map[string]interface{}{"apiKey": []string{"key-one", "other-key-2", "  ", "top$ecret-7f3a", "${HELIOS_VERIF_UNSET}"}[p.Variant%5]}
	case "size_limit":
		return map[string]interface{}{"max_request_body": []int{10, 1000}[p.Variant%2], "max_response_body": 1 << 20}
	case "gzip":
		return map[string]interface{}{"level": 5, "min_size": 16, "content_types": []interface{}{"text/"}}
	case "headers":
		return map[string]interface{}{"set": map[string]interface{}{"X-App": fmt.Sprintf("v%d", p.Variant)}}
	}
	return nil
}

var c17Builtins = []string{"logging", "size_limit", "gzip", "headers", "request-id", "custom-auth"}

type c17Invalid struct {
	Name string                 `json:"name"`
	Cfg  map[string]interface{} `json:"cfg"`
	Why  string                 `json:"why"`
}

var c17InvalidTable = []c17Invalid{
	{"nope", nil, "unknown plugin"},
	{"", nil, "empty plugin name"},
	{"Logging", nil, "unknown plugin (case)"},
	{"size-limit", map[string]interface{}{"max_request_body": 10}, "unknown plugin (spelling)"},
	{"custom-auth", nil, "custom-auth without config"},
	{"custom-auth", map[string]interface{}{}, "custom-auth without apiKey"},
	{"custom-auth", map[string]interface{}{"apiKey": ""}, "custom-auth with empty apiKey"},
	{"custom-auth", map[string]interface{}{"apiKey": 12345}, "custom-auth apiKey not a string"},
	{"custom-auth", map[string]interface{}{"apikey": "k"}, "custom-auth wrong key spelling"},
	{"size_limit", map[string]interface{}{"max_request_body": 0}, "size_limit zero request limit"},
	{"size_limit", map[string]interface{}{"max_request_body": -1}, "size_limit negative request limit"},
	{"size_limit", map[string]interface{}{"max_request_body": "ten"}, "size_limit limit that is not a number"},
	{"size_limit", map[string]interface{}{"max_response_body": 0}, "size_limit zero response limit"},
	{"size_limit", map[string]interface{}{"max_request_body": 10, "max_response_body": -5}, "size_limit negative response limit"},
	{"size_limit", map[string]interface{}{"max_response_body": true}, "size_limit bool limit"},
	{"gzip", nil, "gzip without config"},
	{"gzip", map[string]interface{}{"min_size": 16, "content_types": []interface{}{"text/"}}, "gzip without level"},
	{"gzip", map[string]interface{}{"level": "fast", "min_size": 16, "content_types": []interface{}{"text/"}}, "gzip level that is not a number"},
	{"gzip", map[string]interface{}{"level": 10, "min_size": 16, "content_types": []interface{}{"text/"}}, "gzip level 10"},
	{"gzip", map[string]interface{}{"level": -2, "min_size": 16, "content_types": []interface{}{"text/"}}, "gzip level -2"},
	{"gzip", map[string]interface{}{"level": 5, "content_types": []interface{}{"text/"}}, "gzip without min_size"},
	{"gzip", map[string]interface{}{"level": 5, "min_size": "x", "content_types": []interface{}{"text/"}}, "gzip min_size string"},
	{"gzip", map[string]interface{}{"level": 5, "min_size": 16}, "gzip without content_types"},
	{"gzip", map[string]interface{}{"level": 5, "min_size": 16, "content_types": "text/"}, "gzip content_types not a list"},
	{"gzip", map[string]interface{}{"level": 5, "min_size": 16, "content_types": []interface{}{1, 2}}, "gzip content_types not strings"},
	{"headers", map[string]interface{}{"set": "x"}, "headers set not an object"},
	{"headers", map[string]interface{}{"set": map[string]interface{}{"X-A": 5}}, "headers value not a string"},
	{"headers", map[string]interface{}{"request_set": []interface{}{"a"}}, "headers request_set not an object"},
}

// c17Shapes: plugin configs that are not mappings (written into the YAML file as raw text).
var c17Shapes = []struct{ Name, Raw, Why string }{
	{"size_limit", "[1048576, 1048576]", "size_limit config written as a sequence"},
	{"size_limit", "1048576", "size_limit config written as a number"},
	{"headers", "X-App=Helios", "headers config written as a string"},
	{"gzip", "[5, 1024]", "gzip config written as a sequence"},
	{"custom-auth", "secret", "custom-auth config written as a string"},
}

var c17ShapeRe = regexp.MustCompile(`config:\s*\n\s+verifshape: '?"?([^\n'"]*)'?"?`)

type c17Case struct {
	Kind  string    `json:"kind"` // order | invalid | binary
	Chain []c17Plug `json:"chain,omitempty"`
	Inv   int       `json:"invalid_index,omitempty"`
	Pos   int       `json:"position,omitempty"`
	Idx   int       `json:"idx,omitempty"`
}

// c17Build interleaves probes at every gap: p0 c1 p1 c2 ... ck pk
func c17Build(chain []c17Plug) config.PluginsConfig {
	pc := config.PluginsConfig{Enabled: true}
	probe := func(i int) config.PluginConfig {
		return config.PluginConfig{Name: "verif-probe", Config: map[string]interface{}{"label": fmt.Sprintf("p%d", i)}}
	}
	pc.Chain = append(pc.Chain, probe(0))
	for i, p := range chain {
		pc.Chain = append(pc.Chain, config.PluginConfig{Name: p.Name, Config: c17ValidConfig(p)}, probe(i+1))
	}
	return pc
}

func c17Order(e *vh.Env, c c17Case, be *vh.Backend, o *vh.Out) {
	cfg := baseConfig("round_robin", []*vh.Backend{be})
	cfg.Plugins = c17Build(c.Chain)
	if len(c.Chain) > 0 && (len(c.Chain)+int(c.Chain[0].Name[0]))%2 == 0 {
		// the same configuration value has been built before (a dry run, a reload): building is repeatable
		if _, err := plugins.BuildChain(cfg.Plugins, http.HandlerFunc(func(http.ResponseWriter, *http.Request) {})); err != nil {
			o.Viol("C17|valid-chain-refused", fmt.Sprintf("chain %v with valid configurations does not build: %v", c.Chain, err), nil)
			return
		}
		o.Obs("chains_built_twice", 1)
	}
	sys, err := startSys(cfg, []*vh.Backend{be}, false)
	if err != nil {
		o.Viol("C17|valid-chain-refused", fmt.Sprintf("chain %v with valid configurations does not build: %v", c.Chain, err), nil)
		return
	}
	defer sys.Close()
	// requests: API keys {none, wrong (other length), wrong (same length), prefix, variant keys} x body sizes {0, 10, 11, 500, 2000}
	keys := []string{"", "nope", "key-onX", "key-on", "key-one", "other-key-2", "other-key-X", "key-one1", "other-key-2-and-more", "KEY-ONE", " ", "  ", "top-7f3a", "top$ecret-7f3a", "${HELIOS_VERIF_UNSET}"}
	for _, key := range keys {
		for _, blen := range []int{0, 10, 11, 1000, 1001} {
			// where does the first rejection happen?
			rejectAt, rejectStatus := -1, 0
			for i, p := range c.Chain {
				if p.Name == "custom-auth" {
					if key != c17ValidConfig(p)["apiKey"].(string) {
						rejectAt, rejectStatus = i, 401
						break
					}
				}
				if p.Name == "size_limit" {
					if blen > c17ValidConfig(p)["max_request_body"].(int) {
						rejectAt, rejectStatus = i, 413
						break
					}
				}
			}
			c17Mu.Lock()
			c17Journal = nil
			c17Mu.Unlock()
			be.Reset()
			method := []string{"POST", "GET", "DELETE", "PUT", "OPTIONS"}[(blen+len(key))%5]
			r := httptest.NewRequest(method, "/c17", strings.NewReader(strings.Repeat("b", blen)))
			r.RemoteAddr = "10.17.0.1:1"
			if key != "" {
				r.Header.Set("X-API-Key", key)
			}
			w := httptest.NewRecorder()
			sys.Handler.ServeHTTP(w, r)
			c17Mu.Lock()
			j := append([]string(nil), c17Journal...)
			c17Mu.Unlock()
			o.Obs("requests", 1)
			ctx := fmt.Sprintf("chain %v %s key=%q body=%d", c.Chain, method, key, blen)
			last := len(c.Chain) // probes p0..p_last enter when nothing rejects
			if rejectAt >= 0 {
				last = rejectAt
			}
			var want []string
			for i := 0; i <= last; i++ {
				want = append(want, fmt.Sprintf("enter p%d", i))
			}
			for i := last; i >= 0; i-- {
				want = append(want, fmt.Sprintf("exit p%d", i))
			}
			if strings.Join(j, ",") != strings.Join(want, ",") {
				kind := "order"
				if rejectAt >= 0 && len(j) > len(want) {
					kind = "continued-after-rejection|" + c.Chain[rejectAt].Name
				}
				o.Viol("C17|"+kind, fmt.Sprintf("%s: probe journal %v, expected %v", ctx, j, want), map[string]any{"chain": c.Chain})
				return
			}
			if rejectAt >= 0 {
				o.Obs("rejections", 1)
				if w.Code != rejectStatus {
					o.Viol("C17|rejection-status|"+c.Chain[rejectAt].Name, fmt.Sprintf("%s: %s must reject with %d, got %d", ctx, c.Chain[rejectAt].Name, rejectStatus, w.Code), nil)
					return
				}
				if be.Count() != 0 {
					o.Viol("C17|backend-reached-after-rejection|"+c.Chain[rejectAt].Name, fmt.Sprintf("%s: rejected by %s but the backend received the request", ctx, c.Chain[rejectAt].Name), nil)
					return
				}
			} else {
				o.Obs("passed_through", 1)
				if w.Code != 200 || be.Count() != 1 {
					o.Viol("C17|accepted-not-served", fmt.Sprintf("%s: no plugin rejects this request but status=%d, backend arrivals=%d", ctx, w.Code, be.Count()), nil)
					return
				}
			}
		}
	}
}

func c17ChainWithInvalid(c c17Case) config.PluginsConfig {
	pc := config.PluginsConfig{Enabled: true}
	inv := c17InvalidTable[c.Inv]
	for i, p := range c.Chain {
		if i == c.Pos {
			pc.Chain = append(pc.Chain, config.PluginConfig{Name: inv.Name, Config: inv.Cfg})
		}
		pc.Chain = append(pc.Chain, config.PluginConfig{Name: p.Name, Config: c17ValidConfig(p)})
	}
	if c.Pos >= len(c.Chain) {
		pc.Chain = append(pc.Chain, config.PluginConfig{Name: inv.Name, Config: inv.Cfg})
	}
	return pc
}

func freePort() int {
	ln := vh.ListenLoopback()
	defer ln.Close()
	return ln.Addr().(*net.TCPAddr).Port
}

// runBinary starts the real helios binary with the configuration and watches the proxy port.
// Returns exited (within the wait), exit code, whether the proxy port ever accepted a connection, output.
func runBinary(e *vh.Env, cfg *config.Config, tag string, wait time.Duration) (exited bool, code int, accepted bool, out string) {
	return runBinaryUntil(e, cfg, tag, wait, false)
}

// runBinaryUntil is runBinary that may stop early as soon as the proxy port is held by the process (real-time
// limits are generous upper bounds: a loaded machine must not turn into a verdict).
func runBinaryUntil(e *vh.Env, cfg *config.Config, tag string, wait time.Duration, stopWhenListening bool) (exited bool, code int, accepted bool, out string) {
	data, err := yaml.Marshal(cfg)
	if err != nil {
		return false, -1, false, "marshal: " + err.Error()
	}
	// "verifshape: <raw>" stands for a config node that is written as the raw text (not a mapping)
	data = c17ShapeRe.ReplaceAll(data, []byte("config: $1"))
	path := filepath.Join(e.TmpDir, tag+".yaml")
	if err := os.WriteFile(path, data, 0o644); err != nil {
		return false, -1, false, err.Error()
	}
	logf, _ := os.Create(filepath.Join(e.TmpDir, tag+".log"))
	defer logf.Close()
	cmd := exec.Command(e.BinPath, "-config", path)
	cmd.Stdout, cmd.Stderr = logf, logf
	if err := cmd.Start(); err != nil {
		return false, -1, false, err.Error()
	}
	done := make(chan error, 1)
	go func() { done <- cmd.Wait() }()
	deadline := time.After(wait)
	for {
		select {
		case err := <-done:
			b, _ := os.ReadFile(logf.Name())
			code = 0
			if ee, ok := err.(*exec.ExitError); ok {
				code = ee.ExitCode()
			} else if err != nil {
				code = -1
			}
			return true, code, accepted, string(b)
		case <-deadline:
			cmd.Process.Kill()
			<-done
			b, _ := os.ReadFile(logf.Name())
			return false, 0, accepted, string(b)
		default:
		}
		if vh.PidListens(cmd.Process.Pid, cfg.Server.Port) {
			accepted = true
			if stopWhenListening {
				cmd.Process.Kill()
				<-done
				b, _ := os.ReadFile(logf.Name())
				return false, 0, true, string(b)
			}
		}
		time.Sleep(5 * time.Millisecond)
	}
}

func init() {
	vh.AddPart("C17", "chains", "plain", vh.Opts{Shards: 16, Procs: 1, TimeoutS: 400, TimeoutSThorough: 2500},
		func(e *vh.Env) []c17Case {
			var cs []c17Case
			maxLen := e.Pick(4, 5)
			// all sequences (permutations and repetitions) of the six built-ins up to maxLen: sub-multisets in every order.
			// A plugin that occurs twice takes configuration variant 0 the first time and 1 the second time.
			var rec func(cur []c17Plug)
			n := 0
			rec = func(cur []c17Plug) {
				if len(cur) > 0 {
					n++
					// thin the largest layer in the quick tier
					if len(cur) < 5 || e.Thorough() || n%5 == 0 {
						cs = append(cs, c17Case{Kind: "order", Chain: append([]c17Plug(nil), cur...)})
					}
				}
				if len(cur) == maxLen {
					return
				}
				for _, name := range c17Builtins {
					cnt := 0
					for _, p := range cur {
						if p.Name == name {
							cnt++
						}
					}
					if cnt >= 2 {
						continue
					}
					rec(append(cur, c17Plug{name, cnt}))
				}
			}
			rec(nil)
			// a configured key of blanks only is a key like any other: a request without a key does not match it
			for _, ch := range [][]c17Plug{{{"custom-auth", 2}}, {{"logging", 0}, {"custom-auth", 2}}, {{"custom-auth", 2}, {"size_limit", 0}}, {{"size_limit", 0}, {"custom-auth", 2}, {"headers", 0}}, {{"custom-auth", 0}, {"custom-auth", 2}},
				// keys that look like shell or environment syntax are keys like any other
				{{"custom-auth", 3}}, {{"logging", 0}, {"custom-auth", 3}, {"headers", 0}}, {{"custom-auth", 4}}, {{"size_limit", 1}, {"custom-auth", 4}}} {
				cs = append(cs, c17Case{Kind: "order", Chain: ch})
			}
			// invalid entries at every position of valid chains
			r := e.Rand("c17inv")
			for inv := range c17InvalidTable {
				for k := 0; k < e.Pick(6, 30); k++ {
					ln := r.Intn(4)
					var ch []c17Plug
					for i := 0; i < ln; i++ {
						name := c17Builtins[r.Intn(len(c17Builtins))]
						ch = append(ch, c17Plug{name, r.Intn(2)})
					}
					cs = append(cs, c17Case{Kind: "invalid", Chain: ch, Inv: inv, Pos: r.Intn(ln + 1), Idx: k})
				}
			}
			return cs
		},
		func(e *vh.Env, c c17Case, o *vh.Out) {
			o.Need("requests", "rejections", "passed_through", "invalid_chains_refused")
			o.Eval(1)
			o.Distinct(vh.J(c))
			if c.Kind == "order" {
				be := vh.NewBackend("b0")
				defer be.Close()
				c17Order(e, c, be, o)
				if len(c.Chain) == 3 && c.Chain[0].Name == "size_limit" && c.Chain[1].Name == "logging" && c.Chain[2].Name == "custom-auth" {
					o.Sample(map[string]any{"part": "chains", "case": c, "probes": "a tracing probe sits in every gap: p0 size_limit p1 logging p2 custom-auth p3", "requests": "15 API-key variants (none, wrong, prefix of the key, key plus a suffix, other case, blanks only, keys with $ and ${...} in them, the key) x 5 body sizes"})
				}
				return
			}
			// invalid: neither BuildChain nor buildHandler may succeed
			pc := c17ChainWithInvalid(c)
			inv := c17InvalidTable[c.Inv]
			base := http.HandlerFunc(func(w http.ResponseWriter, r *http.Request) {})
			if _, err := plugins.BuildChain(pc, base); err == nil {
				o.Viol("C17|invalid-chain-built|"+inv.Why, fmt.Sprintf("BuildChain accepted a chain with %s at position %d of %v", inv.Why, c.Pos, c.Chain), map[string]any{"invalid": inv})
				return
			}
			cfg := baseConfig("round_robin", nil)
			cfg.Backends = []config.BackendConfig{{Name: "b0", Address: "http://127.0.0.1:9"}}
			cfg.Plugins = pc
			sys, err := startSys(cfg, nil, false)
			if err == nil {
				sys.Close()
				o.Viol("C17|invalid-chain-handler|"+inv.Why, fmt.Sprintf("buildHandler accepted a chain with %s", inv.Why), map[string]any{"invalid": inv})
				return
			}
			o.Obs("invalid_chains_refused", 1)
		})

	vh.AddPart("C17", "binary", "plain", vh.Opts{Shards: 8, Procs: 2, TimeoutS: 400, TimeoutSThorough: 1500, NeedBin: true},
		func(e *vh.Env) []c17Case {
			var cs []c17Case
			r := e.Rand("c17bin")
			for inv := range c17InvalidTable {
				for k := 0; k < e.Pick(1, 4); k++ {
					ln := r.Intn(3)
					var ch []c17Plug
					for i := 0; i < ln; i++ {
						ch = append(ch, c17Plug{c17Builtins[r.Intn(len(c17Builtins))], r.Intn(2)})
					}
					cs = append(cs, c17Case{Kind: "binary", Chain: ch, Inv: inv, Pos: r.Intn(ln + 1), Idx: k})
				}
			}
			// a plugin's config that is not a mapping at all (sequence, number, string): nothing usable can be read from it
			for si := range c17Shapes {
				cs = append(cs, c17Case{Kind: "binary-shape", Inv: si})
			}
			// a valid chain must start (non-vacuity of "never accepted a connection")
			cs = append(cs, c17Case{Kind: "binary-valid", Chain: []c17Plug{{"logging", 0}, {"size_limit", 1}, {"headers", 0}}})
			return cs
		},
		func(e *vh.Env, c c17Case, o *vh.Out) {
			o.Need("binary_runs", "binary_refused_startup", "binary_valid_started")
			cfg := baseConfig("round_robin", nil)
			cfg.Backends = []config.BackendConfig{{Name: "b0", Address: "http://127.0.0.1:9"}}
			cfg.Server.Port = freePort()
			cfg.Logging.Level = "error"
			o.Eval(1)
			o.Distinct(vh.J(c))
			o.Obs("binary_runs", 1)
			if c.Kind == "binary-valid" {
				cfg.Plugins = config.PluginsConfig{Enabled: true}
				for _, p := range c.Chain {
					cfg.Plugins.Chain = append(cfg.Plugins.Chain, config.PluginConfig{Name: p.Name, Config: c17ValidConfig(p)})
				}
				exited, code, accepted, out := runBinaryUntil(e, cfg, "valid", 20*time.Second, true)
				for attempt := 0; attempt < 3 && exited && strings.Contains(out, "address already in use"); attempt++ {
					cfg.Server.Port = freePort() // the port picked by the harness was taken by another process meanwhile
					exited, code, accepted, out = runBinaryUntil(e, cfg, "valid", 20*time.Second, true)
				}
				if exited || !accepted {
					o.Viol("C17|binary|valid-chain-not-started", fmt.Sprintf("a valid chain did not start a listening proxy: exited=%v code=%d accepted=%v output=%s", exited, code, accepted, trunc(out, 300)), nil)
					return
				}
				o.Obs("binary_valid_started", 1)
				o.Sample(map[string]any{"part": "binary", "case": c, "result": "proxy port accepted connections"})
				return
			}
			cfg.Plugins = c17ChainWithInvalid(c)
			inv := c17InvalidTable[c.Inv]
			tag := fmt.Sprintf("inv%d_%d", c.Inv, c.Idx)
			if c.Kind == "binary-shape" {
				sh := c17Shapes[c.Inv]
				inv = c17Invalid{Name: sh.Name, Why: sh.Why}
				cfg.Plugins = config.PluginsConfig{Enabled: true, Chain: []config.PluginConfig{{Name: "logging"}, {Name: sh.Name, Config: map[string]interface{}{"verifshape": sh.Raw}}, {Name: "headers", Config: map[string]interface{}{"set": map[string]interface{}{"X-A": "b"}}}}}
				tag = fmt.Sprintf("shape%d", c.Inv)
			}
			exited, code, accepted, out := runBinary(e, cfg, tag, 20*time.Second)
			switch {
			case accepted:
				o.Viol("C17|binary|listening-with-invalid-chain|"+inv.Why, fmt.Sprintf("the binary accepted a connection on the proxy port although the chain has %s (exited=%v code=%d)", inv.Why, exited, code), map[string]any{"output": trunc(out, 500)})
			case !exited:
				o.Viol("C17|binary|running-with-invalid-chain|"+inv.Why, fmt.Sprintf("the binary was still running after 20 s with %s in the chain", inv.Why), map[string]any{"output": trunc(out, 500)})
			case code == 0:
				o.Viol("C17|binary|exit-zero|"+inv.Why, fmt.Sprintf("the binary exited 0 with %s in the chain", inv.Why), map[string]any{"output": trunc(out, 500)})
			case strings.Contains(out, "goroutine ") && strings.Contains(out, "panic"):
				o.Viol("C17|binary|panic|"+inv.Why, fmt.Sprintf("the binary panicked with %s in the chain", inv.Why), map[string]any{"output": trunc(out, 800)})
			default:
				o.Obs("binary_refused_startup", 1)
			}
		})
}
