package main

import (
	"bytes"
	"crypto/tls"
	"fmt"
	"io"
	"net/http"
	"path/filepath"
	"sort"
	"strings"
	"time"

	"github.com/0xReLogic/Helios/internal/config"
	vh "github.com/0xReLogic/Helios/internal/verifh"
)

// C01: end-to-end transparency, decided differentially: the same literal
// request is sent (a) directly to the scripted backend and (b) through Helios;
// what the backend saw and what the client received must be equal after a
// fixed normalisation (hop-by-hop headers out, documented additions allowed).

type c01Cfg struct {
	Strategy string `json:"strategy"`
	Chain    string `json:"chain"` // "" | logging
	IDs      bool   `json:"ids"`
	Base     string `json:"base"` // "" | /base | /base/
	NBack    int    `json:"n_backends"`
	Features bool   `json:"features"` // breaker, limiter, active and passive checks enabled (thresholds far away): transparency must not depend on them
	Batch    int    `json:"batch"`
	Of       int    `json:"of"`
}

type c01Ex struct {
	Req       vh.RawReq `json:"req"`
	Script    vh.Script `json:"script"`
	Stream    bool      `json:"stream,omitempty"`    // streaming oracle applies
	Truncated bool      `json:"truncated,omitempty"` // the backend cuts the body short: only "the client can tell" is compared
	Label     string    `json:"label"`
}

var hopByHop = map[string]bool{"connection": true, "keep-alive": true, "proxy-connection": true, "proxy-authenticate": true, "proxy-authorization": true,
	"te": true, "trailer": true, "transfer-encoding": true, "upgrade": true}

func lowerMulti(h [][2]string, drop map[string]bool) map[string][]string {
	m := map[string][]string{}
	for _, kv := range h {
		k := strings.ToLower(kv[0])
		if drop[k] || hopByHop[k] {
			continue
		}
		m[k] = append(m[k], kv[1])
	}
	return m
}

func headerToPairs(h http.Header) [][2]string {
	var out [][2]string
	keys := make([]string, 0, len(h))
	for k := range h {
		keys = append(keys, k)
	}
	sort.Strings(keys)
	for _, k := range keys {
		for _, v := range h[k] {
			out = append(out, [2]string{k, v})
		}
	}
	return out
}

func diffMulti(a, b map[string][]string) string {
	var ds []string
	for k, va := range a {
		vb, ok := b[k]
		if !ok {
			ds = append(ds, fmt.Sprintf("dropped %s=%q", k, trunc(strings.Join(va, "|"), 60)))
		} else if strings.Join(va, "\x00") != strings.Join(vb, "\x00") {
			ds = append(ds, fmt.Sprintf("changed %s: %q -> %q", k, trunc(strings.Join(va, "|"), 60), trunc(strings.Join(vb, "|"), 60)))
		}
	}
	for k, vb := range b {
		if _, ok := a[k]; !ok {
			ds = append(ds, fmt.Sprintf("added %s=%q", k, trunc(strings.Join(vb, "|"), 60)))
		}
	}
	sort.Strings(ds)
	return strings.Join(ds, "; ")
}

// sigOf reduces a difference description to a stable signature fragment: the kind and header name only.
func sigOf(d string) string {
	var out []string
	for _, p := range strings.Split(d, "; ") {
		f := strings.Fields(p)
		if len(f) >= 2 {
			name := f[1]
			if i := strings.IndexAny(name, "=:"); i >= 0 {
				name = name[:i]
			}
			out = append(out, f[0]+" "+name)
		}
	}
	if len(out) > 3 {
		out = out[:3]
	}
	return strings.Join(out, ",")
}

func c01Exchanges(e *vh.Env, c c01Cfg) []c01Ex {
	var xs []c01Ex
	def := func() c01Ex {
		return c01Ex{Req: vh.RawReq{Method: "GET", Target: "/p", Host: "example.test", Headers: [][2]string{{"Accept", "*/*"}}},
			Script: vh.Script{Status: 200, Headers: [][2]string{{"Content-Type", "text/plain"}}, Steps: []vh.Step{{Op: "write", N: 64}}, Framing: "cl"}}
	}
	add := func(label string, f func(x *c01Ex)) {
		x := def()
		f(&x)
		x.Label = label
		xs = append(xs, x)
	}
	for _, m := range []string{"GET", "HEAD", "POST", "PUT", "PATCH", "DELETE", "OPTIONS", "PURGE"} {
		m := m
		add("method "+m, func(x *c01Ex) {
			x.Req.Method = m
			if m == "POST" || m == "PUT" || m == "PATCH" {
				x.Req.BodyLen = 100
			}
		})
	}
	for _, t := range []string{"/", "/a/b/c", "/a%2Fb", "/a%20b", "/a/../b", "/a/./b", "//double//slash", "/semi;colon=1", "/%E2%9C%93", "/p?", "/p?x=1&x=2&y=", "/p?a=b?c=d", "/p?x=1;y=2",
		"/p?q=%zz", "/p?%20=%20", "/very/" + strings.Repeat("long/", 300), "/p?big=" + strings.Repeat("v", 4000), "/trailing/", "/UPPER/Case", "/a+b?c+d=e+f", "/~user/_-.!*'()"} {
		t := t
		add("target "+trunc(t, 30), func(x *c01Ex) { x.Req.Target = t })
	}
	hdrSets := [][][2]string{
		{{"X-Multi", "a"}, {"X-Multi", "b"}, {"X-Multi", "c"}},
		{{"Cookie", "a=1; b=2"}, {"Cookie", "c=3"}},
		{{"Accept", "text/html"}, {"Accept", "application/json;q=0.9"}, {"Accept-Language", "de, en;q=0.5"}},
		{{"X-Empty", ""}},
		{{"X-Long", strings.Repeat("h", 8000)}},
		{{"x-lower-case", "v"}, {"X-UPPER-CASE", "V"}, {"X-mIxEd", "m"}},
		{{"X-Spaces", "a   b  c"}, {"X-Comma", "a, b,, c"}},
		{{"Authorization", "Bearer abc.def"}, {"If-None-Match", `W/"x"`}, {"Range", "bytes=0-9"}},
		{{"Accept-Encoding", "gzip, br"}},
		{{"Accept-Encoding", "identity"}},
		{{"User-Agent", "verif/1.0"}, {"Referer", "http://x/y?z"}},
		{{"X-Forwarded-For", "203.0.113.9"}, {"X-Forwarded-Proto", "https"}, {"X-Real-IP", "203.0.113.9"}, {"Forwarded", "for=203.0.113.9"}},
		{{"Connection", "x-hop"}, {"X-Hop", "1"}, {"X-Keep", "2"}},
		{{"Content-Type", "application/x-www-form-urlencoded"}},
		{{"X-Utf8", "héllo"}, {"X-Tab", "a\tb"}},
		{{"Pragma", "no-cache"}, {"Cache-Control", "no-cache, no-store"}, {"Via", "1.1 upstream"}},
		{{"X-Request-ID", "client-supplied-id"}, {"X-Trace-ID", "client-trace"}},
		{{"Origin", "http://o"}, {"Access-Control-Request-Method", "POST"}},
	}
	for i, hs := range hdrSets {
		hs := hs
		add(fmt.Sprintf("req-headers #%d %s", i, hs[0][0]), func(x *c01Ex) { x.Req.Headers = append(x.Req.Headers, hs...) })
	}
	for _, n := range []int{0, 1, 4095, 4096, 4097, 32767, 32768, 32769, 98304, 98305} {
		for _, ch := range []bool{false, true} {
			n, ch := n, ch
			add(fmt.Sprintf("req-body %d chunked=%v", n, ch), func(x *c01Ex) {
				x.Req.Method = "POST"
				x.Req.BodyLen, x.Req.BodySeed, x.Req.Chunked, x.Req.ChunkSize = n, n, ch, 5000
			})
			add(fmt.Sprintf("resp-body %d chunked=%v", n, ch), func(x *c01Ex) {
				x.Script.Steps = []vh.Step{{Op: "write", N: n}}
				x.Script.Seed = n + 1
				if ch {
					x.Script.Framing = "chunked"
				}
			})
		}
	}
	add("chunked body cut short", func(x *c01Ex) {
		x.Truncated = true
		x.Script = vh.Script{Status: 200, Headers: [][2]string{{"Content-Type", "text/plain"}}, Framing: "chunked", Steps: []vh.Step{{Op: "write", N: 3000}, {Op: "flush"}, {Op: "closeconn"}}}
	})
	add("declared body cut short", func(x *c01Ex) {
		x.Truncated = true
		x.Script = vh.Script{Status: 200, Headers: [][2]string{{"Content-Type", "text/plain"}}, Framing: "cl", Declared: 6000, Steps: []vh.Step{{Op: "write", N: 1000}, {Op: "flush"}, {Op: "closeconn"}}}
	})
	add("req trailers", func(x *c01Ex) {
		x.Req.Method = "POST"
		x.Req.BodyLen, x.Req.Chunked, x.Req.ChunkSize = 300, true, 100
		x.Req.Trailers = [][2]string{{"X-Checksum", "abc"}}
	})
	for _, st := range []int{200, 201, 202, 204, 206, 301, 302, 303, 304, 307, 400, 401, 403, 404, 409, 418, 429, 451, 500, 501, 502, 503, 504, 599, 600, 799, 999} {
		st := st
		for _, withBody := range []bool{true, false} {
			withBody := withBody
			if withBody && (st == 204 || st == 304) {
				continue
			}
			add(fmt.Sprintf("status %d body=%v", st, withBody), func(x *c01Ex) {
				x.Script.Status = st
				if !withBody {
					x.Script.Steps = nil
					x.Script.Framing = ""
				}
				if st >= 300 && st < 400 {
					x.Script.Headers = append(x.Script.Headers, [2]string{"Location", "http://elsewhere/x?y=1"})
				}
				if st == 401 {
					x.Script.Headers = append(x.Script.Headers, [2]string{"WWW-Authenticate", `Basic realm="r"`})
				}
				if st == 304 {
					x.Script.Headers = append(x.Script.Headers, [2]string{"ETag", `"abc"`})
				}
			})
		}
	}
	rhSets := [][][2]string{
		{{"Set-Cookie", "a=1; Path=/"}, {"Set-Cookie", "b=2; HttpOnly"}, {"Set-Cookie", "c=3"}},
		{{"X-Empty-Resp", ""}},
		{{"X-Long-Resp", strings.Repeat("r", 8000)}},
		{{"x-lower", "1"}, {"X-UPPER", "2"}},
		{{"Content-Type", "application/json; charset=utf-8"}, {"Cache-Control", "max-age=60, public"}, {"Vary", "Accept"}, {"Vary", "Origin"}},
		{{"Content-Encoding", "identity"}},
		{{"Content-Language", "de"}, {"Content-Disposition", `attachment; filename="f.txt"`}, {"Last-Modified", "Mon, 02 Jan 2006 15:04:05 GMT"}, {"ETag", `W/"e"`}},
		{{"Server", "scripted/1"}, {"X-Powered-By", "x"}, {"Via", "1.0 inner"}},
		{{"Access-Control-Allow-Origin", "*"}, {"Strict-Transport-Security", "max-age=1"}},
		{{"X-Request-ID", "backend-chose-this"}},
		{{"Link", "</a>; rel=preload"}, {"Link", "</b>; rel=preload"}},
		{{"Retry-After", "3"}, {"Age", "5"}, {"Expires", "0"}, {"Warning", `199 - "w"`}},
	}
	for i, hs := range rhSets {
		hs := hs
		add(fmt.Sprintf("resp-headers #%d %s", i, hs[0][0]), func(x *c01Ex) { x.Script.Headers = append(x.Script.Headers, hs...) })
	}
	add("gzip-encoded body passes untouched", func(x *c01Ex) {
		x.Req.Headers = append(x.Req.Headers, [2]string{"Accept-Encoding", "gzip"})
		x.Script.Headers = append(x.Script.Headers, [2]string{"Content-Encoding", "gzip"})
		x.Script.Steps = []vh.Step{{Op: "write", N: 3000}}
		x.Script.Gzip, x.Script.Compressible, x.Script.Framing = true, true, ""
	})
	add("interim 103", func(x *c01Ex) {
		x.Script.Interim = []vh.Interim{{Code: 103, Headers: [][2]string{{"Link", "</s.css>; rel=preload"}}}}
	})
	add("interim 103 x2 then 404", func(x *c01Ex) {
		x.Script.Interim = []vh.Interim{{Code: 103, Headers: [][2]string{{"Link", "</1>"}}}, {Code: 103, Headers: [][2]string{{"Link", "</2>"}}}}
		x.Script.Status = 404
	})
	add("response trailers", func(x *c01Ex) {
		x.Script.Framing = "chunked"
		x.Script.Steps = []vh.Step{{Op: "write", N: 500}, {Op: "flush"}, {Op: "write", N: 500}}
		x.Script.Trailers = [][2]string{{"X-Sum", "42"}, {"X-Other", "t"}}
	})
	add("HEAD with content-length", func(x *c01Ex) {
		x.Req.Method = "HEAD"
		x.Script.Steps = nil
		x.Script.Framing = ""
		x.Script.Headers = append(x.Script.Headers, [2]string{"Content-Length", "12345"})
	})
	for _, st := range []int{500, 503, 404} {
		st := st
		add(fmt.Sprintf("HEAD answered %d with content-length", st), func(x *c01Ex) {
			x.Req.Method = "HEAD"
			x.Script.Status = st
			x.Script.Steps = nil
			x.Script.Framing = ""
			x.Script.Headers = append(x.Script.Headers, [2]string{"Content-Length", "321"})
		})
	}
	add("multi-write multi-flush", func(x *c01Ex) {
		x.Script.Framing = "chunked"
		x.Script.Steps = []vh.Step{{Op: "write", N: 10}, {Op: "flush"}, {Op: "write", N: 5000}, {Op: "flush"}, {Op: "write", N: 1}, {Op: "write", N: 40000}}
	})
	// streaming: first part flushed, then the backend waits 10 s
	for _, kind := range []string{"chunked", "sse", "cl"} {
		kind := kind
		add("stream "+kind, func(x *c01Ex) {
			x.Stream = true
			x.Script.Steps = []vh.Step{{Op: "write", N: 600}, {Op: "flush"}, {Op: "sleep", Ms: 10000}, {Op: "write", N: 300}}
			switch kind {
			case "chunked":
				x.Script.Framing = "chunked"
			case "sse":
				x.Script.Framing = ""
				x.Script.Headers = [][2]string{{"Content-Type", "text/event-stream"}, {"Cache-Control", "no-cache"}}
			case "cl":
				x.Script.Framing = "cl"
			}
		})
	}
	add("stream header flushed before the body", func(x *c01Ex) {
		// the response header goes out at once (long polling, server-sent events that start later), the first body byte 3 s later
		x.Stream = true
		x.Script.Framing = "chunked"
		x.Script.Steps = []vh.Step{{Op: "flush"}, {Op: "sleep", Ms: 3000}, {Op: "write", N: 400}}
	})
	add("stream two flushes close together", func(x *c01Ex) {
		// two events a few milliseconds apart, then silence: the second one must not wait for the third
		x.Stream = true
		x.Script.Framing = "chunked"
		x.Script.Steps = []vh.Step{{Op: "write", N: 200}, {Op: "flush"}, {Op: "sleep", Ms: 3}, {Op: "write", N: 300}, {Op: "flush"}, {Op: "sleep", Ms: 5000}, {Op: "write", N: 100}}
	})
	add("stream many events", func(x *c01Ex) {
		x.Stream = true
		x.Script.Framing = "chunked"
		for i := 0; i < 5; i++ {
			x.Script.Steps = append(x.Script.Steps, vh.Step{Op: "write", N: 50 + i}, vh.Step{Op: "flush"}, vh.Step{Op: "sleep", Ms: 2000})
		}
	})
	// seeded combinations
	r := e.Rand("c01", c.Strategy, c.Chain, c.IDs, c.Base, c.Batch)
	base := len(xs)
	for i := 0; i < e.Pick(150, 1500); i++ {
		x := xs[r.Intn(base)]
		y := xs[r.Intn(base)]
		z := c01Ex{Req: x.Req, Script: y.Script, Stream: y.Stream, Truncated: y.Truncated, Label: "combo(" + x.Label + " + " + y.Label + ")"}
		// extra header sets are added only if they introduce no name that is already present
		// (repeating a singleton header such as User-Agent or Content-Type is not valid HTTP)
		disjoint := func(have, extra [][2]string) bool {
			for _, a := range have {
				for _, b := range extra {
					if strings.EqualFold(a[0], b[0]) {
						return false
					}
				}
			}
			return true
		}
		if hs := hdrSets[r.Intn(len(hdrSets))]; r.Intn(3) == 0 && disjoint(z.Req.Headers, hs) {
			z.Req.Headers = append(append([][2]string{}, z.Req.Headers...), hs...)
		}
		if hs := rhSets[r.Intn(len(rhSets))]; r.Intn(3) == 0 && !y.Stream && disjoint(z.Script.Headers, hs) {
			z.Script.Headers = append(append([][2]string{}, z.Script.Headers...), hs...)
		}
		if strings.HasPrefix(y.Label, "HEAD ") {
			z.Req.Method, z.Req.BodyLen, z.Req.Chunked = "HEAD", 0, false
		}
		xs = append(xs, z)
	}
	return xs
}

func init() {
	vh.AddPart("C01", "differential", "sim", vh.Opts{Shards: 16, TimeoutS: 400, TimeoutSThorough: 3000},
		func(e *vh.Env) []c01Cfg {
			var cs []c01Cfg
			of := e.Pick(1, 3)
			for si, st := range allStrategies {
				for _, chain := range []string{"", "logging"} {
					for _, ids := range []bool{false, true} {
						for bi, base := range []string{"", "/base", "/base/"} {
							if !e.Thorough() && (si+bi+len(chain))%2 == 1 && !(st == "round_robin" && base == "") {
								continue // quick: half of the configuration product
							}
							for b := 0; b < of; b++ {
								cs = append(cs, c01Cfg{Strategy: st, Chain: chain, IDs: ids, Base: base, NBack: 1 + (si+bi)%3, Features: (si+bi+b)%2 == 0 != ids, Batch: b, Of: of})
							}
						}
					}
				}
			}
			return cs
		},
		func(e *vh.Env, c c01Cfg, o *vh.Out) {
			o.Need("exchanges_compared", "stream_checks", "interim_seen", "trailers_seen", "truncated_bodies_noticed", "configs_with_readded_backends")
			bes := newBackends(c.NBack)
			defer closeBackends(bes)
			cfg := baseConfig(c.Strategy, bes)
			// half of the configurations start with every backend registered under another base path on the same host and
			// port; the backends are then removed and added again at the address under test through the admin API
			moved := (c.Batch+len(c.Strategy)+c.NBack)%2 == 1
			for i := range cfg.Backends {
				cfg.Backends[i].Address = bes[i].URL + c.Base
				if moved {
					cfg.Backends[i].Address = bes[i].URL + "/previous" + c.Base
				}
			}
			if c.Chain != "" {
				cfg.Plugins = config.PluginsConfig{Enabled: true, Chain: []config.PluginConfig{{Name: c.Chain}}}
			}
			cfg.Logging.RequestID.Enabled = c.IDs
			cfg.Logging.Trace.Enabled = c.IDs
			cfg.Server.Timeouts = config.TimeoutConfig{Read: 3, Write: 60, Idle: 120, BackendRead: 50} // the longest streamed response takes 10 s: longer than read, shorter than write
			if c.Features {
				cfg.CircuitBreaker = config.CircuitBreakerConfig{Enabled: true, FailureThreshold: 1000000, SuccessThreshold: 1, IntervalSeconds: 3600, TimeoutSeconds: 60}
				cfg.RateLimit = config.RateLimitConfig{Enabled: true, MaxTokens: 1000000, RefillRate: 1}
				cfg.HealthChecks.Passive = config.PassiveHealthCheckConfig{Enabled: true, UnhealthyThreshold: 1000000, UnhealthyTimeout: 30}
				cfg.HealthChecks.Active = config.ActiveHealthCheckConfig{Enabled: true, Interval: 10, Timeout: 2, Path: "/health"}
				cfg.LoadBalancer.WebSocketPool = config.WebSocketPoolConfig{Enabled: true, MaxIdle: 2, MaxActive: 4, IdleTimeoutSeconds: 60}
			}
			sys, err := startSys(cfg, bes, true)
			if err != nil {
				o.Inconcl("startSys: %v", err)
				return
			}
			defer sys.Close()
			if moved {
				adm := sys.admin()
				for i := range cfg.Backends {
					w1 := adminDo(adm, "POST", "/v1/backends/remove", "127.0.0.1:1", nil, fmt.Sprintf(`{"name":%q}`, cfg.Backends[i].Name))
					w2 := adminDo(adm, "POST", "/v1/backends/add", "127.0.0.1:1", nil, fmt.Sprintf(`{"name":%q,"address":%q,"weight":1}`, cfg.Backends[i].Name, bes[i].URL+c.Base))
					if w1.Code != 200 || w2.Code != 201 {
						o.Inconcl("moving backend %s to its final address: remove %d, add %d %s", cfg.Backends[i].Name, w1.Code, w2.Code, w2.Body.String())
						return
					}
				}
				o.Obs("configs_with_readded_backends", 1)
			}
			idHdr := map[string]bool{}
			if c.IDs {
				idHdr["x-request-id"], idHdr["x-trace-id"] = true, true
			}
			cname := fmt.Sprintf("%s chain=%q ids=%v base=%q features=%v", c.Strategy, c.Chain, c.IDs, c.Base, c.Features)
			xs := c01Exchanges(e, c)
			for xi, x := range xs {
				xid := fmt.Sprintf("x%d", xi)
				rq := x.Req
				rq.Headers = append(append([][2]string{}, rq.Headers...), [2]string{vh.ScriptHeader, x.Script.Encode()}, [2]string{vh.XIDHeader, xid})
				rq.TimeoutMs = 90000
				rq.Instant = !x.Stream
				// (a) direct: the same request, with the target the proxy is expected to produce
				direct := rq
				direct.Target = strings.TrimSuffix(c.Base, "/") + rq.Target
				db := bes[0]
				n0 := len(db.Arrivals())
				dres := vh.Do(db.Addr, direct)
				darr := db.Arrivals()
				if len(darr) != n0+1 {
					o.Inconcl("direct exchange %q produced %d arrivals", x.Label, len(darr)-n0)
					continue
				}
				da := darr[n0]
				// (b) proxied
				before := map[string]int{}
				for _, b := range bes {
					before[b.Name] = len(b.Arrivals())
				}
				pres := vh.Do(sys.Addr, rq)
				if rq.Instant && vh.IsSim && (vh.Took(time.Duration(pres.DurNS)) || vh.Took(time.Duration(dres.DurNS))) {
					vh.FlagAnomaly(fmt.Sprintf("%q direct=%v proxied=%v", x.Label, time.Duration(dres.DurNS), time.Duration(pres.DurNS)))
				}
				var pa *vh.Arrival
				for _, b := range bes {
					arr := b.Arrivals()
					if len(arr) > before[b.Name] {
						pa = &arr[len(arr)-1]
					}
				}
				o.Eval(1)
				o.Distinct(cname + "|" + x.Label)
				ctx := fmt.Sprintf("[%s] %s", cname, x.Label)
				viol := func(kind, detail string) {
					o.Viol("C01|"+kind, ctx+": "+detail, map[string]any{"exchange": x, "config": c})
				}
				if pa == nil {
					viol("backend-not-reached", fmt.Sprintf("no backend saw the proxied request; client got status %d err=%q", pres.Status, pres.Err))
					continue
				}
				// ---- backend side
				if pa.Method != da.Method {
					viol("req-method", fmt.Sprintf("method %q -> %q", da.Method, pa.Method))
				}
				if pa.URI != da.URI {
					viol("req-uri", fmt.Sprintf("request target %q -> %q", trunc(da.URI, 120), trunc(pa.URI, 120)))
				}
				if pa.Host != da.Host {
					viol("req-host", fmt.Sprintf("Host %q -> %q", da.Host, pa.Host))
				}
				if pa.BodyLen != da.BodyLen || pa.BodyHash != da.BodyHash {
					viol("req-body", fmt.Sprintf("request body %d bytes -> %d bytes (hash differs=%v)", da.BodyLen, pa.BodyLen, pa.BodyHash != da.BodyHash))
				}
				if da.BodyLen > 0 && (da.CL >= 0) != (pa.CL >= 0) {
					viol("req-framing", fmt.Sprintf("request framing: declared length %d -> %d", da.CL, pa.CL))
				}
				connListed := map[string]bool{"x-forwarded-for": true, "content-length": true}
				for _, kv := range rq.Headers {
					if strings.EqualFold(kv[0], "Connection") {
						for _, t := range strings.Split(kv[1], ",") {
							connListed[strings.ToLower(strings.TrimSpace(t))] = true
						}
					}
				}
				clientSent := map[string]bool{}
				for _, kv := range rq.Headers {
					clientSent[strings.ToLower(kv[0])] = true
				}
				dropReq := map[string]bool{}
				for k := range connListed {
					dropReq[k] = true
				}
				for k := range idHdr {
					if !clientSent[k] {
						dropReq[k] = true // generated id: an allowed addition (C16 checks its value)
					}
				}
				if d := diffMulti(lowerMulti(headerToPairs(da.Header), dropReq), lowerMulti(headerToPairs(pa.Header), dropReq)); d != "" {
					viol("req-headers|"+sigOf(d), "request headers seen by the backend: "+d)
				}
				// X-Forwarded-For must be the client's value extended by the peer address, nothing else
				var xffs []string
				for _, kv := range rq.Headers {
					if strings.EqualFold(kv[0], "X-Forwarded-For") {
						xffs = append(xffs, kv[1])
					}
				}
				wantXFF := strings.Join(append(xffs, "127.0.0.1"), ", ")
				if got := pa.Header.Get("X-Forwarded-For"); got != wantXFF {
					viol("req-xff", fmt.Sprintf("X-Forwarded-For at the backend is %q, expected %q", got, wantXFF))
				}
				if len(da.Trailer) > 0 || len(pa.Trailer) > 0 {
					if d := diffMulti(lowerMulti(headerToPairs(da.Trailer), nil), lowerMulti(headerToPairs(pa.Trailer), nil)); d != "" {
						viol("req-trailers", "request trailers: "+d)
					}
					o.Obs("req_trailers_seen", 1)
				}
				// ---- client side
				if x.Truncated {
					// the backend died in the middle of the body: both clients must be able to tell
					if x.Req.Method == "HEAD" {
						continue // no body is transferred: nothing can be cut
					} else if dres.Err == "" && dres.Complete {
						o.Inconcl("direct exchange %q: the cut body was not noticed by the reference client", x.Label)
					} else if pres.Err == "" && pres.Complete {
						viol("truncation-hidden", fmt.Sprintf("the backend cut the body after %d bytes; the direct client sees %q, the client behind Helios received a response that looks complete (%d bytes)", dres.BodyLen, dres.Err, pres.BodyLen))
					} else {
						o.Obs("truncated_bodies_noticed", 1)
					}
					continue
				}
				if dres.Err != "" {
					o.Inconcl("direct exchange %q failed: %s", x.Label, dres.Err)
					continue
				}
				if pres.Err != "" {
					viol("resp-error", fmt.Sprintf("client-side error %q (direct exchange succeeded with %d)", pres.Err, dres.Status))
					continue
				}
				if pres.Status != dres.Status {
					viol("resp-status", fmt.Sprintf("status %d -> %d", dres.Status, pres.Status))
				}
				// Date is stamped by the backend when it answers; the two exchanges of a
				// streaming script happen seconds apart, so only its presence is compared
				dropResp := map[string]bool{"content-length": true, "date": true}
				if dres.Has("Date") != pres.Has("Date") {
					viol("resp-date", fmt.Sprintf("Date header present directly=%v, through Helios=%v", dres.Has("Date"), pres.Has("Date")))
				}
				backendSent := map[string]bool{}
				for _, kv := range dres.Headers {
					backendSent[strings.ToLower(kv[0])] = true
				}
				for k := range idHdr {
					// the configured ID headers are Helios's to set on the response (C16)
					dropResp[k] = true
				}
				if d := diffMulti(lowerMulti(dres.Headers, dropResp), lowerMulti(pres.Headers, dropResp)); d != "" {
					viol("resp-headers|"+sigOf(d), "response headers seen by the client: "+d)
				}
				if pres.BodyLen != dres.BodyLen || pres.BodyHash != dres.BodyHash {
					viol("resp-body", fmt.Sprintf("response body %d bytes -> %d bytes (content differs=%v)", dres.BodyLen, pres.BodyLen, pres.BodyHash != dres.BodyHash))
				}
				if dres.BodyLen > 0 && dres.Framing != pres.Framing {
					viol("resp-framing|"+dres.Framing+"->"+pres.Framing, fmt.Sprintf("response framing %s -> %s", dres.Framing, pres.Framing))
				}
				if dres.Framing == "cl" && pres.Framing == "cl" && dres.Get1("Content-Length") != pres.Get1("Content-Length") {
					viol("resp-content-length", fmt.Sprintf("Content-Length %s -> %s", dres.Get1("Content-Length"), pres.Get1("Content-Length")))
				}
				if rq.Method == "HEAD" && dres.Get1("Content-Length") != pres.Get1("Content-Length") {
					viol("resp-head-content-length", fmt.Sprintf("HEAD Content-Length %q -> %q", dres.Get1("Content-Length"), pres.Get1("Content-Length")))
				}
				if d := diffMulti(lowerMulti(dres.Trailers, nil), lowerMulti(pres.Trailers, nil)); d != "" {
					viol("resp-trailers", "response trailers: "+d)
				}
				if len(dres.Trailers) > 0 {
					o.Obs("trailers_seen", 1)
				}
				if len(dres.Interim) != len(pres.Interim) {
					viol("resp-interim", fmt.Sprintf("%d interim responses from the backend, %d reached the client", len(dres.Interim), len(pres.Interim)))
				} else {
					for i := range dres.Interim {
						if dres.Interim[i].Code != pres.Interim[i].Code {
							viol("resp-interim", fmt.Sprintf("interim %d -> %d", dres.Interim[i].Code, pres.Interim[i].Code))
						} else if d := diffMulti(lowerMulti(dres.Interim[i].Headers, nil), lowerMulti(pres.Interim[i].Headers, dropResp)); d != "" {
							viol("resp-interim-headers", "interim response headers: "+d)
						}
						o.Obs("interim_seen", 1)
					}
				}
				if x.Stream && rq.Method != "HEAD" {
					// every byte the backend flushed before one of its long pauses (>= 1 s) must have been read before that
					// pause ended; short pauses between two flushes are part of the script but decide nothing themselves
					cum, elapsed := 0, time.Duration(0)
					flushed := false
					for _, st := range x.Script.Steps {
						switch st.Op {
						case "write":
							cum += st.N
							flushed = false
						case "flush":
							flushed = true
						case "sleep":
							d := time.Duration(st.Ms) * time.Millisecond
							if st.Ms >= 1000 && flushed {
								first, deadline := cum, elapsed+d
								at := func(res *vh.RawResp) time.Duration {
									if first == 0 {
										if res.Status == 0 {
											return -1
										}
										return time.Duration(res.HeadAt) // nothing but the header was flushed: its arrival counts
									}
									for _, m := range res.Marks {
										if m.N >= first {
											return time.Duration(m.At)
										}
									}
									return -1
								}
								ad, ap := at(dres), at(pres)
								if ad < 0 || ad >= deadline {
									o.Inconcl("streaming reference %q: direct client got the first %d bytes at %v", x.Label, first, ad)
								} else {
									o.Obs("stream_checks", 1)
									if ap < 0 || ap >= deadline {
										viol("stream-delayed", fmt.Sprintf("the backend flushed its header and %d body bytes by +%v and then waited %v; directly they arrive at +%v, through Helios at +%v", first, elapsed, d, ad, ap))
									}
								}
							}
							elapsed += d
						}
					}
				}
				o.Obs("exchanges_compared", 1)
				if x.Stream {
					// let scripted handlers that are still sleeping (e.g. HEAD on a streaming script) finish:
					// the next exchange may reuse their backend connection
					time.Sleep(15 * time.Second)
				}
				if xi == 3 && c.Batch == 0 && c.Strategy == "round_robin" && c.Chain == "" && !c.IDs && c.Base == "" {
					o.Sample(map[string]any{"part": "differential", "config": c, "exchange": x, "backend_saw": map[string]any{"method": pa.Method, "uri": pa.URI, "headers": pa.Header}, "client_got": map[string]any{"status": pres.Status, "headers": pres.Headers, "body_len": pres.BodyLen, "framing": pres.Framing}})
				}
			}
		})
}

// ---- TLS front end with HTTP/2: the same differential idea with net/http clients (direct: HTTP/1.1 to the backend,
// proxied: HTTP/2 over TLS to Helios, which talks HTTP/1.1 to the backend)

type c01H2 struct {
	Strategy string `json:"strategy"`
	Chain    string `json:"chain"`
	IDs      bool   `json:"ids"`
}

func init() {
	vh.AddPart("C01", "tls-http2", "plain", vh.Opts{Shards: 4, Procs: 4, TimeoutS: 300},
		func(e *vh.Env) []c01H2 {
			var cs []c01H2
			for i, st := range allStrategies {
				cs = append(cs, c01H2{st, []string{"", "logging"}[i%2], i%3 == 0})
			}
			cs = append(cs, c01H2{"round_robin", "logging", true})
			return cs
		},
		func(e *vh.Env, c c01H2, o *vh.Out) {
			o.Need("h2_exchanges_compared", "h2_req_trailers_seen")
			bes := newBackends(2)
			defer closeBackends(bes)
			cfg := baseConfig(c.Strategy, bes)
			if c.Chain != "" {
				cfg.Plugins = config.PluginsConfig{Enabled: true, Chain: []config.PluginConfig{{Name: c.Chain}}}
			}
			cfg.Logging.RequestID.Enabled, cfg.Logging.Trace.Enabled = c.IDs, c.IDs
			cfg.Server.TLS = config.TLSConfig{Enabled: true, CertFile: filepath.Join(e.RepoDir, "certs", "cert.pem"), KeyFile: filepath.Join(e.RepoDir, "certs", "key.pem")}
			sys, err := startSys(cfg, bes, true)
			if err != nil {
				o.Inconcl("startSys: %v", err)
				return
			}
			defer sys.Close()
			h2 := &http.Client{Timeout: 30 * time.Second, Transport: &http.Transport{TLSClientConfig: &tls.Config{InsecureSkipVerify: true}, ForceAttemptHTTP2: true, DisableCompression: true},
				CheckRedirect: func(*http.Request, []*http.Request) error { return http.ErrUseLastResponse }}
			h1 := &http.Client{Timeout: 30 * time.Second, Transport: &http.Transport{DisableCompression: true}, CheckRedirect: func(*http.Request, []*http.Request) error { return http.ErrUseLastResponse }}
			cname := fmt.Sprintf("tls+h2 %s chain=%q ids=%v", c.Strategy, c.Chain, c.IDs)
			all := c01Exchanges(e, c01Cfg{Strategy: c.Strategy, Chain: c.Chain, IDs: c.IDs, Batch: 99})
			for xi, x := range all {
				if x.Stream || len(x.Script.Interim) > 0 || x.Truncated {
					continue // streaming timing, 1xx and cut bodies are decided by the raw-socket part
				}
				if xi%3 != 0 && xi > 120 {
					continue
				}
				if strings.ContainsAny(x.Req.Target, " ") {
					continue
				}
				do := func(cl *http.Client, base, xid string) (*http.Response, []byte, error) {
					var body io.Reader
					if x.Req.BodyLen > 0 || x.Req.Method == "POST" || x.Req.Method == "PUT" || x.Req.Method == "PATCH" {
						b := vh.GenBody(x.Req.BodySeed, 0, x.Req.BodyLen, false)
						if x.Req.Chunked {
							body = unknownLenBytes{bytes.NewReader(b)}
						} else {
							body = bytes.NewReader(b)
						}
					}
					req, err := http.NewRequest(x.Req.Method, base+x.Req.Target, body)
					if err != nil {
						return nil, nil, err
					}
					req.Host = "example.test"
					if len(x.Req.Trailers) > 0 && body != nil {
						// announced before the exchange, filled in when the body has been read
						req.Trailer = http.Header{}
						for _, t := range x.Req.Trailers {
							req.Trailer[http.CanonicalHeaderKey(t[0])] = nil
						}
						req.Body = &trailerAtEOF{r: body, fill: func() {
							for _, t := range x.Req.Trailers {
								req.Trailer.Add(t[0], t[1])
							}
						}}
						req.ContentLength = -1
					}
					for _, h := range x.Req.Headers {
						if strings.EqualFold(h[0], "Connection") || strings.EqualFold(h[0], "X-Hop") {
							continue // connection-specific fields are not allowed in HTTP/2
						}
						req.Header.Add(h[0], h[1])
					}
					req.Header.Set(vh.ScriptHeader, x.Script.Encode())
					req.Header.Set(vh.XIDHeader, xid)
					if req.Header.Get("User-Agent") == "" {
						req.Header.Set("User-Agent", "verif-client") // the default differs between Go's HTTP/1.1 and HTTP/2 clients
					}
					resp, err := cl.Do(req)
					if err != nil {
						return nil, nil, err
					}
					b, err := io.ReadAll(resp.Body)
					resp.Body.Close()
					return resp, b, err
				}
				find := func(xid string) *vh.Arrival {
					for _, b := range bes {
						for _, a := range b.Arrivals() {
							if a.XID == xid {
								a := a
								return &a
							}
						}
					}
					return nil
				}
				dxid, pxid := fmt.Sprintf("d%d", xi), fmt.Sprintf("p%d", xi)
				dr, db, derr := do(h1, bes[0].URL, dxid)
				pr, pb, perr := do(h2, "https://"+sys.Addr, pxid)
				da, pa := find(dxid), find(pxid)
				for _, b := range bes {
					b.Reset()
				}
				if derr != nil || da == nil {
					continue // the reference exchange itself is not possible with a net/http client (e.g. invalid target)
				}
				o.Eval(1)
				o.Distinct(cname + "|" + x.Label)
				ctx := fmt.Sprintf("[%s] %s", cname, x.Label)
				viol := func(kind, detail string) {
					o.Viol("C01|h2|"+kind, ctx+": "+detail, map[string]any{"exchange": x, "config": c})
				}
				if perr != nil || pa == nil {
					viol("failed", fmt.Sprintf("the exchange works directly but through Helios over HTTP/2: err=%v, reached backend=%v", perr, pa != nil))
					continue
				}
				if pr.Proto != "HTTP/2.0" {
					o.Inconcl("%s: negotiated %s", ctx, pr.Proto)
					continue
				}
				if pa.Method != da.Method || pa.URI != da.URI || pa.Host != da.Host {
					viol("request-line", fmt.Sprintf("%s %q Host %q -> %s %q Host %q", da.Method, trunc(da.URI, 80), da.Host, pa.Method, trunc(pa.URI, 80), pa.Host))
				}
				if pa.BodyLen != da.BodyLen || pa.BodyHash != da.BodyHash {
					viol("request-body", fmt.Sprintf("request body %d -> %d bytes", da.BodyLen, pa.BodyLen))
				}
				if len(da.Trailer) > 0 || len(pa.Trailer) > 0 {
					if d := diffMulti(lowerMulti(headerToPairs(da.Trailer), nil), lowerMulti(headerToPairs(pa.Trailer), nil)); d != "" {
						viol("req-trailers", "request trailers: "+d)
					}
					o.Obs("h2_req_trailers_seen", 1)
				}
				drop := map[string]bool{"x-forwarded-for": true, "content-length": true, "user-agent": false, "accept-encoding": false, strings.ToLower(vh.XIDHeader): true}
				if c.IDs {
					for _, k := range []string{"x-request-id", "x-trace-id"} {
						if da.Header.Get(k) == "" {
							drop[k] = true
						}
					}
				}
				dh, ph := lowerMulti(headerToPairs(da.Header), drop), lowerMulti(headerToPairs(pa.Header), drop)
				for _, m := range []map[string][]string{dh, ph} {
					// HTTP/2 may carry Cookie in several fields; they are joined with "; " towards HTTP/1.1 (RFC 9113 8.2.3)
					if c := m["cookie"]; len(c) > 1 {
						m["cookie"] = []string{strings.Join(c, "; ")}
					}
				}
				if d := diffMulti(dh, ph); d != "" {
					viol("request-headers|"+sigOf(d), "request headers seen by the backend: "+d)
				}
				if pr.StatusCode != dr.StatusCode {
					viol("status", fmt.Sprintf("status %d -> %d", dr.StatusCode, pr.StatusCode))
				}
				if string(pb) != string(db) {
					viol("response-body", fmt.Sprintf("response body %d -> %d bytes", len(db), len(pb)))
				}
				dropR := map[string]bool{"date": true, "content-length": true, "x-request-id": c.IDs, "x-trace-id": c.IDs}
				if d := diffMulti(lowerMulti(headerToPairs(dr.Header), dropR), lowerMulti(headerToPairs(pr.Header), dropR)); d != "" {
					viol("response-headers|"+sigOf(d), "response headers seen by the client: "+d)
				}
				if d := diffMulti(lowerMulti(headerToPairs(dr.Trailer), nil), lowerMulti(headerToPairs(pr.Trailer), nil)); d != "" {
					viol("response-trailers", "response trailers: "+d)
				}
				o.Obs("h2_exchanges_compared", 1)
				if xi == 5 && c.Strategy == "round_robin" && c.Chain == "" {
					o.Sample(map[string]any{"part": "tls-http2", "config": c, "exchange": x.Label, "proto": pr.Proto, "status": pr.StatusCode})
				}
			}
		})
}

// trailerAtEOF fills in the request's trailer values when the body has been read to its end.
type trailerAtEOF struct {
	r    io.Reader
	fill func()
	done bool
}

func (t *trailerAtEOF) Read(p []byte) (int, error) {
	n, err := t.r.Read(p)
	if err == io.EOF && !t.done {
		t.done = true
		t.fill()
	}
	return n, err
}
func (t *trailerAtEOF) Close() error { return nil }

type unknownLenBytes struct{ r *bytes.Reader }

func (u unknownLenBytes) Read(p []byte) (int, error) { return u.r.Read(p) }
