package main

import (
	"fmt"
	"strings"
	"sync/atomic"
	"time"

	"github.com/0xReLogic/Helios/internal/config"
	vh "github.com/0xReLogic/Helios/internal/verifh"
	"github.com/0xReLogic/Helios/internal/vhook"
)

// C04: health state machine of one subject backend S in a 3-backend pool whose
// other two members stay healthy (DESIGN.md Appendix A.2).

type c04Case struct {
	Strategy string `json:"strategy"`
	Thr      int    `json:"thr"`
	Active   bool   `json:"active"`
	Passive  bool   `json:"passive"`
	Prefix   string `json:"prefix"`
	Depth    int    `json:"depth"`
	Random   int    `json:"random,omitempty"`
}

const (
	c04Window   = 20 * time.Second
	c04Interval = 10 * time.Second
)

type c04Model struct {
	ejected bool
	until   time.Time
	cum     int
	consec  int
	served  bool // S has served since the last ejection expired (reports may lag until then)
}

func (m *c04Model) status(now time.Time) int { // +1 eligible, -1 ejected, 0 boundary
	if !m.ejected {
		return 1
	}
	d := now.Sub(m.until)
	if d > -time.Millisecond && d < time.Millisecond {
		return 0
	}
	if d > 0 {
		return 1
	}
	return -1
}

type c04World struct {
	c      c04Case
	o      *vh.Out
	sys    *Sys
	bes    []*vh.Backend
	S      *vh.Backend
	m      c04Model
	t0     time.Time
	seq    string
	step   int
	sAddrs []string // client addresses that map to S while all are healthy (hash strategies)
	probeN int      // probe log entries already fed to the model
	R      int
	nf     int // failing rounds so far
	// probe accounting from the hook points
	probeSent, probeOK atomic.Int64
	unexplained        int64
}

func (w *c04World) ctx() string {
	return fmt.Sprintf("%s thr=%d active=%v passive=%v seq=%s step %d", w.c.Strategy, w.c.Thr, w.c.Active, w.c.Passive, w.seq, w.step)
}

func (w *c04World) sig(kind string) string {
	mode := "passive"
	if w.c.Active && w.c.Passive {
		mode = "both"
	} else if w.c.Active {
		mode = "active"
	}
	return fmt.Sprintf("C04|%s|%s|%s", kind, w.c.Strategy, mode)
}

// feedProbes feeds probe answers journalled by S since the last call into the model.
func (w *c04World) feedProbes() {
	log := w.S.ProbeLog()
	for ; w.probeN < len(log); w.probeN++ {
		p := log[w.probeN]
		w.o.Obs("probes_observed", 1)
		if p.Status != 200 {
			done := vh.Epoch.Add(time.Duration(p.DoneAt))
			// a failed probe ejects (for the window, from its completion)
			w.m.ejected, w.m.until, w.m.served = true, done.Add(c04Window), false
			w.o.Obs("probe_fail_ejections", 1)
		}
	}
}

// probeAudit compares what Helios did with its probes (hook points lb.probe.send / lb.probe.ok) with what the backends
// were scripted to answer: a probe that ended without success although every backend answered 200 was lost to the
// virtual clock (it jumped while the answer was in flight), and the model cannot know about the ejection it caused.
// Such a case is re-executed (vh.FlagAnomaly); a Helios change that makes good probes fail repeats on every attempt.
func (w *c04World) probeAudit() {
	vh.Settle()
	scripted := int64(0)
	for _, b := range w.bes {
		lastHangUp := int64(-1 << 62)
		for _, p := range b.ProbeLog() {
			if p.Status == 0 {
				// a probe that was hung up on arrives a second time when net/http had sent it over a kept-alive
				// connection (it retries once on a fresh one): both arrivals are one probe of Helios
				if p.At-lastHangUp < int64(2*time.Second) {
					continue
				}
				lastHangUp = p.At
			}
			if p.Status != 200 {
				scripted++
			}
		}
	}
	if un := w.probeSent.Load() - w.probeOK.Load() - scripted; un != w.unexplained {
		vh.FlagAnomaly(fmt.Sprintf("c04: %d probes sent, %d succeeded, %d scripted to fail", w.probeSent.Load(), w.probeOK.Load(), scripted))
		w.unexplained = un
	}
}

// reports checks both endpoints: an ejected backend is never reported healthy.
func (w *c04World) reports() bool {
	now := time.Now()
	if w.m.status(now) != -1 {
		return true
	}
	infos, err := listBackends(w.sys.admin())
	if err != nil {
		w.o.Inconcl("list backends: %v", err)
		return true
	}
	for _, bi := range infos {
		if bi.Name == w.S.Name && bi.Healthy {
			w.o.Viol(w.sig("admin-reports-healthy"), fmt.Sprintf("%s: /v1/backends reports %s healthy %v before its unhealthy window ends", w.ctx(), w.S.Name, w.m.until.Sub(now)), nil)
			return false
		}
	}
	h := w.sys.healthJSON()
	if bs, ok := h["backends"].(map[string]any); ok {
		if e, ok := bs[w.S.Name].(map[string]any); ok {
			if hv, _ := e["healthy"].(bool); hv {
				w.o.Viol(w.sig("metrics-reports-healthy"), fmt.Sprintf("%s: metrics /health reports %s healthy %v before its unhealthy window ends", w.ctx(), w.S.Name, w.m.until.Sub(now)), nil)
				return false
			}
		}
	}
	w.o.Obs("reports_checked_while_ejected", 1)
	return true
}

// round issues requests until S has served one (or R requests). kind: 'g' good, 'f' 5xx, 'u' unreachable.
// Returns false after a violation.
func (w *c04World) round(kind byte) bool {
	hang := false
	switch kind {
	case 'f':
		// failing answers come in several shapes; the shape is fixed by the position in the sequence
		hd := [][2]string{{"X-Backend", w.S.Name}}
		shapes := []vh.Script{
			{Status: 500, Headers: hd},
			{Status: 503, Headers: hd, Interim: []vh.Interim{{Code: 103, Headers: [][2]string{{"Link", "</x>"}}}}},
			{Status: 502, Headers: hd, Framing: "chunked", Steps: []vh.Step{{Op: "write", N: 3000}}},
			{Status: 599, Headers: hd, Steps: []vh.Step{{Op: "write", N: 10}}},
			{HangFirst: true}, // no answer at all: Helios gives up after backend_read (2 s) and answers 502
		}
		w.S.Default = shapes[(w.step+len(w.seq)+w.nf)%len(shapes)]
		hang = w.S.Default.HangFirst
		w.nf++
	case 'u':
		w.S.Down()
		defer w.S.Up()
	}
	defer func() {
		w.S.Default = vh.Script{Status: 200, Headers: [][2]string{{"X-Backend", w.S.Name}}}
	}()
	hash := strings.HasPrefix(w.c.Strategy, "ip_hash")
	for i := 0; i < w.R; i++ {
		w.feedProbes()
		cl := fmt.Sprintf("10.77.%d.%d", i/200, i%200)
		if hash {
			cl = w.sAddrs[i%len(w.sAddrs)]
		}
		t0 := time.Now()
		seen := w.S.Count()
		rec := w.sys.call("GET", "/c04", cl+":4000", nil, nil)
		now := time.Now()
		by := servedBy(rec)
		// a hung exchange at the subject: no answer, and the subject's journal shows the request arrived there
		hung := hang && rec.Code >= 500 && by == "" && w.S.Count() > seen
		if vh.IsSim && vh.Took(now.Sub(t0)) && !hung {
			vh.FlagAnomaly()
			if kind == 'u' && w.c.Active {
				// the subject is down and virtual time passed while this request was under way (nothing in the
				// scenario takes time): probe ticks may have found the subject down meanwhile, and a refused
				// probe leaves no trace the model could read. No verdict from here on.
				w.o.Inconcl("%s: %v of virtual time passed during a request to the downed subject with active probing on; the model cannot see refused probes - no verdict", w.ctx(), now.Sub(t0))
				return false
			}
		}
		w.o.Obs("requests", 1)
		bySubject := by == w.S.Name || (kind == 'u' && rec.Code >= 500 && by == "") || hung
		if !bySubject {
			if rec.Code != 200 {
				w.o.Viol(w.sig("request-failed"), fmt.Sprintf("%s: request got %d %q while two backends are healthy", w.ctx(), rec.Code, trunc(rec.Body.String(), 60)), nil)
				return false
			}
			continue
		}
		// S was dispatched to
		st := w.m.status(now)
		if st == -1 {
			w.o.Viol(w.sig("traffic-inside-window"), fmt.Sprintf("%s: %s received client traffic %v before its unhealthy window ends", w.ctx(), w.S.Name, w.m.until.Sub(now)), nil)
			return false
		}
		if st == 1 && w.m.ejected {
			w.m.ejected = false // window elapsed and S is back in rotation
			w.o.Obs("recoveries", 1)
		}
		w.m.served = true
		failed := rec.Code >= 500
		if failed {
			w.m.cum++
			w.m.consec++
			w.o.Obs("failed_responses", 1)
			thr := w.c.Thr
			if !w.c.Passive {
				thr = 1 << 30
			}
			ej := w.observedEjected()
			switch {
			case w.m.consec >= thr && !ej:
				w.o.Viol(w.sig("not-ejected-at-threshold"), fmt.Sprintf("%s: %d failed responses in a row (threshold %d) but %s is not ejected", w.ctx(), w.m.consec, thr, w.S.Name), nil)
				return false
			case w.m.cum < thr && ej:
				var arr []string
				for _, a := range w.S.Arrivals() {
					arr = append(arr, fmt.Sprintf("%v %s %s from %s", time.Duration(a.At), a.Method, a.URI, a.Remote))
				}
				w.o.Viol(w.sig("ejected-below-threshold"), fmt.Sprintf("%s: %s ejected after only %d failed responses (threshold %d)", w.ctx(), w.S.Name, w.m.cum, thr),
					map[string]any{"subject_arrivals": arr, "now": time.Duration(now.Sub(vh.Epoch)).String(), "request_took": now.Sub(t0).String(), "status": rec.Code, "body": trunc(rec.Body.String(), 80), "hang_shape": hang})
				return false
			}
			if ej {
				w.m.ejected, w.m.until, w.m.served = true, now.Add(c04Window), false
				w.m.cum, w.m.consec = 0, 0
				w.o.Obs("passive_ejections", 1)
			}
		} else {
			w.m.consec = 0
			w.o.Obs("good_responses", 1)
			if w.observedEjected() && w.m.status(now) == 1 {
				// a successful response must not eject
				w.o.Viol(w.sig("ejected-by-success"), fmt.Sprintf("%s: %s reported unhealthy right after a successful response", w.ctx(), w.S.Name), nil)
				return false
			}
		}
		return true
	}
	// S did not serve within R requests
	now := time.Now()
	if w.m.status(now) == 1 {
		what := "was never ejected"
		if w.m.ejected {
			what = fmt.Sprintf("unhealthy window ended %v ago", now.Sub(w.m.until))
		}
		infos, _ := listBackends(w.sys.admin())
		w.o.Viol(w.sig("no-traffic-after-window"), fmt.Sprintf("%s: %s got none of %d requests aimed at it although it is eligible (%s)", w.ctx(), w.S.Name, w.R, what), map[string]any{"admin_listing": infos, "s_addrs": w.sAddrs, "now": time.Duration(now.Sub(vh.Epoch)).String()})
		return false
	}
	w.o.Obs("rounds_without_traffic_while_ejected", 1)
	return true
}

// observedEjected reads the admin listing for S.
func (w *c04World) observedEjected() bool {
	infos, err := listBackends(w.sys.admin())
	if err != nil {
		return false
	}
	for _, bi := range infos {
		if bi.Name == w.S.Name {
			return !bi.Healthy
		}
	}
	return false
}

func (w *c04World) toNextTick(extra time.Duration) {
	el := time.Since(w.t0)
	next := (el/c04Interval + 1) * c04Interval
	time.Sleep(next - el + extra)
}

// c04Run executes one event sequence. Alphabet: g f u a W D p q X.
func c04Run(e *vh.Env, c c04Case, seq string, bes []*vh.Backend, o *vh.Out) {
	for i, b := range bes {
		if b.Lost() {
			// an earlier history could not get this backend's port back (the history that saw it was flagged): a
			// fresh backend takes its place
			b.Close()
			bes[i] = vh.NewBackend(b.Name)
		}
	}
	for _, b := range bes {
		b.Reset()
		b.SetProbe(200, 0)
		b.Default = vh.Script{Status: 200, Headers: [][2]string{{"X-Backend", b.Name}}}
	}
	cfg := baseConfig(c.Strategy, bes)
	cfg.HealthChecks.Passive = config.PassiveHealthCheckConfig{Enabled: c.Passive, UnhealthyThreshold: c.Thr, UnhealthyTimeout: int(c04Window / time.Second)}
	if c.Active {
		cfg.HealthChecks.Active = config.ActiveHealthCheckConfig{Enabled: true, Interval: int(c04Interval / time.Second), Timeout: 2, Path: "/health"}
	}
	cfg.Server.Timeouts.BackendRead = 2
	if err := cfg.Validate(); err != nil {
		o.Inconcl("config: %v", err)
		return
	}
	t0 := time.Now()
	sys, err := startSys(cfg, bes, false)
	if err != nil {
		o.Inconcl("startSys: %v", err)
		return
	}
	defer sys.Close()
	w := &c04World{c: c, o: o, sys: sys, bes: bes, S: bes[1], t0: t0, seq: seq, R: 2 * 3 * 3}
	if c.Active {
		vhook.Set(func(pt string) {
			switch pt {
			case "lb.probe.send":
				w.probeSent.Add(1)
			case "lb.probe.ok":
				w.probeOK.Add(1)
			}
		})
		defer vhook.Set(nil)
	}
	if c.Strategy == "least_connections" {
		// S must be the minimum to be chosen at all: the two others carry one in-flight request each
		for _, b := range sys.LB.VerifBackends() {
			if b.Name != w.S.Name {
				b.IncrementConnections()
			}
		}
	}
	if strings.HasPrefix(c.Strategy, "ip_hash") {
		for i := 0; i < 400 && len(w.sAddrs) < 3; i++ {
			cl := fmt.Sprintf("10.55.%d.%d", i/250, i%250)
			t0 := time.Now()
			rec := sys.call("GET", "/map", cl+":1", nil, nil)
			if rec.Code != 200 || (vh.IsSim && vh.Took(time.Since(t0))) {
				// nothing is scripted to fail or to take time here: the virtual clock moved under a healthy exchange
				vh.FlagAnomaly(fmt.Sprintf("c04 mapping request: status %d after %v", rec.Code, time.Since(t0)))
			}
			if servedBy(rec) == w.S.Name {
				w.sAddrs = append(w.sAddrs, cl)
			}
		}
		if len(w.sAddrs) == 0 {
			o.Inconcl("no client address maps to the subject backend")
			return
		}
	}
	if c.Active {
		time.Sleep(50 * time.Millisecond) // let the initial probes finish
	}
	for i := 0; i < len(seq); i++ {
		w.step = i
		ok := true
		switch ev := seq[i]; ev {
		case 'g', 'f', 'u':
			ok = w.round(ev)
		case 'a':
			time.Sleep(3300 * time.Millisecond)
		case 'W':
			time.Sleep(21700 * time.Millisecond)
		case 'p':
			w.S.SetProbe(200, 0)
			w.toNextTick(200 * time.Millisecond)
		case 'q':
			// the health endpoint fails at the next tick: with a 500, or (every other position) by hanging up without
			// an answer. A backend that is eligible at that tick is probed - otherwise its failing endpoint could
			// never eject it
			if (i+len(seq))%2 == 1 {
				w.S.SetProbe(0, 0)
			} else {
				w.S.SetProbe(500, 0)
			}
			el := time.Since(w.t0)
			tick := w.t0.Add((el/c04Interval + 1) * c04Interval)
			eligibleAtTick := w.m.status(tick) == 1 && w.m.status(time.Now()) == 1
			before := len(w.S.ProbeLog())
			w.toNextTick(200 * time.Millisecond)
			w.S.SetProbe(200, 0)
			if eligibleAtTick {
				if len(w.S.ProbeLog()) == before {
					o.Viol(w.sig("eligible-backend-not-probed"), fmt.Sprintf("%s: %s was eligible at the probe tick and its health endpoint was failing, but no probe reached it - a failed probe cannot eject it", w.ctx(), w.S.Name), nil)
					ok = false
				} else {
					o.Obs("failing_probes_of_eligible_backend", 1)
				}
			}
		case 'D':
			// an operator tries to add a backend under the subject's name: refused, and nothing about the subject changes
			if rec := adminDo(w.sys.admin(), "POST", "/v1/backends/add", "127.0.0.1:1", nil, fmt.Sprintf(`{"name":%q,"address":%q,"weight":1}`, w.S.Name, w.S.URL)); rec.Code < 400 {
				o.Viol(w.sig("duplicate-add-accepted"), fmt.Sprintf("%s: adding a second backend named %s was answered %d", w.ctx(), w.S.Name, rec.Code), nil)
				ok = false
			}
			o.Obs("duplicate_adds_refused", 1)
		case 'X':
			// a slow successful probe is in flight while failures eject the backend
			w.S.SetProbe(200, 500*time.Millisecond)
			w.toNextTick(100 * time.Millisecond)
			w.feedProbes()
			for k := 0; k < c.Thr+1 && ok && w.m.status(time.Now()) == 1; k++ {
				ok = w.round('f')
			}
			time.Sleep(time.Second)
			w.S.SetProbe(200, 0)
			if ok {
				ok = w.round('g')
			}
		}
		w.feedProbes()
		if c.Active {
			w.probeAudit()
		}
		if ok {
			ok = w.reports()
		}
		if !ok {
			return
		}
	}
}

func c04Alphabet(c c04Case) string {
	a := "gfuaWD"
	if c.Active {
		a += "pq"
		if c.Passive {
			a += "X"
		}
	}
	return a
}

func init() {
	vh.AddPart("C04", "histories", "sim", vh.Opts{Shards: 16, TimeoutS: 600, TimeoutSThorough: 3400},
		func(e *vh.Env) []c04Case {
			var cs []c04Case
			depth := e.Pick(3, 4)
			for _, st := range allStrategies {
				for thr := 1; thr <= 4; thr++ {
					for _, mode := range [][2]bool{{true, true}, {false, true}, {true, false}} {
						c := c04Case{Strategy: st, Thr: thr, Active: mode[0], Passive: mode[1], Depth: depth}
						for _, ev := range c04Alphabet(c) {
							cc := c
							cc.Prefix = string(ev)
							cs = append(cs, cc)
						}
						cr := c
						cr.Depth = 9
						cr.Random = e.Pick(30, 1000)
						cs = append(cs, cr)
					}
				}
			}
			return cs
		},
		func(e *vh.Env, c c04Case, o *vh.Out) {
			o.Need("requests", "failed_responses", "good_responses", "recoveries", "reports_checked_while_ejected")
			bes := newBackends(3)
			defer closeBackends(bes)
			alpha := c04Alphabet(c)
			if c.Random > 0 {
				r := e.Rand("c04", c.Strategy, c.Thr, c.Active, c.Passive)
				for i := 0; i < c.Random; i++ {
					b := make([]byte, c.Depth)
					for k := range b {
						b[k] = alpha[r.Intn(len(alpha))]
					}
					seq := string(b)
					o.Unit(fmt.Sprintf("%s seq=%s", vh.J(c), seq), func(o *vh.Out) { c04Run(e, c, seq, bes, o) })
					o.Eval(1)
					o.Distinct(fmt.Sprintf("%v|%s", c, b))
				}
				return
			}
			buf := make([]byte, c.Depth)
			copy(buf, c.Prefix)
			n := int64(0)
			var rec func(i int)
			rec = func(i int) {
				if i == c.Depth {
					seq := string(buf)
					// each sequence is re-executed on its own after a time anomaly or an unconfirmed violation
					o.Unit(fmt.Sprintf("%s seq=%s", vh.J(c), seq), func(o *vh.Out) { c04Run(e, c, seq, bes, o) })
					n++
					return
				}
				for k := 0; k < len(alpha); k++ {
					buf[i] = alpha[k]
					rec(i + 1)
				}
			}
			rec(len(c.Prefix))
			o.Eval(n)
			o.DistinctCount(n)
			if c.Strategy == "weighted_round_robin" && c.Thr == 2 && c.Active && c.Passive && c.Prefix == "f" {
				o.Sample(map[string]any{"part": "histories", "case": c, "example_sequence": "ffWg", "alphabet": "g=good response f=5xx u=unreachable a=+3.3s W=+21.7s D=refused add under the same name p=probe ok at next tick q=probe fails at next tick X=slow ok probe overlapping a passive ejection"})
			}
		})

	// ---- schedules: expiry check racing a fresh ejection; successful probe racing an ejection
	type c04Sched struct {
		Kind     string `json:"kind"`
		Strategy string `json:"strategy"`
	}
	vh.AddPart("C04", "schedules", "sim", vh.Opts{NoConfirm: true, Shards: 10, TimeoutS: 300},
		func(e *vh.Env) []c04Sched {
			var cs []c04Sched
			for _, st := range allStrategies {
				cs = append(cs, c04Sched{"expiry-vs-eject", st}, c04Sched{"probe-vs-eject", st}, c04Sched{"expiry-vs-expiry", st})
			}
			return cs
		},
		func(e *vh.Env, c c04Sched, o *vh.Out) {
			o.Need("schedules")
			bes := newBackends(2)
			defer closeBackends(bes)
			world := func(s *vh.Sched) func(*vh.Sched, vh.SchedResult) {
				cfg := baseConfig(c.Strategy, bes)
				cfg.HealthChecks.Passive = config.PassiveHealthCheckConfig{Enabled: true, UnhealthyThreshold: 1, UnhealthyTimeout: 30}
				if c.Kind == "probe-vs-eject" {
					cfg.HealthChecks.Active = config.ActiveHealthCheckConfig{Enabled: true, Interval: 10, Timeout: 2, Path: "/health"}
					s.Adopt = map[string]bool{"lb.probe.ok": true}
				}
				for _, b := range bes {
					b.SetProbe(200, 0)
				}
				sys, err := startSys(cfg, bes, false)
				if err != nil {
					return nil
				}
				live := sys.liveBackend("b0")
				var ejectedAt time.Time
				var codes [2]int
				var by [2]string
				if c.Kind == "expiry-vs-expiry" {
					// b0's window has elapsed, b1 is still out: two requests arrive together and both find b0 again
					sys.LB.MarkBackendUnhealthy(live, 5*time.Second)
					sys.LB.MarkBackendUnhealthy(sys.liveBackend("b1"), time.Hour)
					time.Sleep(6 * time.Second)
					s.Only = map[string]bool{"lb.find.picked": true, "lb.expire.upgrade": true, "lb.expire.metrics": true}
					for k := 0; k < 2; k++ {
						k := k
						s.Go(func() {
							rec := sys.call("GET", "/again", fmt.Sprintf("10.4.4.%d:9", k), nil, nil)
							codes[k], by[k] = rec.Code, servedBy(rec)
						})
					}
				} else if c.Kind == "expiry-vs-eject" {
					sys.LB.MarkBackendUnhealthy(live, 5*time.Second)
					time.Sleep(6 * time.Second) // the first window has elapsed
					s.Go(func() { sys.LB.IsBackendHealthy(live) })
					s.Go(func() { sys.LB.MarkBackendUnhealthy(live, 30*time.Second); ejectedAt = time.Now() })
				} else {
					// the initial probes are parked at lb.probe.ok (adopted as actors); now a passive ejection arrives
					time.Sleep(time.Millisecond)
					s.Go(func() { sys.LB.MarkBackendUnhealthy(live, 30*time.Second); ejectedAt = time.Now() })
				}
				return func(s *vh.Sched, r vh.SchedResult) {
					defer sys.Close()
					o.Obs("schedules", 1)
					if r.Deadlock {
						o.Viol("C04|sched|deadlock|"+c.Kind, fmt.Sprintf("%s: stuck %v trace %v", c.Kind, r.Stuck, s.Trace), map[string]any{"prefix": s.Choices})
						return
					}
					_ = ejectedAt
					if c.Kind == "expiry-vs-expiry" {
						for k := 0; k < 2; k++ {
							if codes[k] != 200 || by[k] != "b0" {
								o.Viol("C04|sched|no-traffic-after-window|"+c.Strategy, fmt.Sprintf("%s: b0's unhealthy window had elapsed (b1 still ejected) and two requests arrived together: request %d got %d from %q; trace %v", c.Strategy, k, codes[k], by[k], s.Trace), map[string]any{"prefix": s.Choices, "trace": s.Trace})
								return
							}
						}
						return
					}
					// the fresh window must stand: no healthy report, no traffic
					infos, _ := listBackends(sys.admin())
					for _, bi := range infos {
						if bi.Name == "b0" && bi.Healthy {
							o.Viol("C04|sched|admin-reports-healthy|"+c.Kind, fmt.Sprintf("%s %s: b0 was just ejected for 30s but /v1/backends says healthy; trace %v", c.Kind, c.Strategy, s.Trace), map[string]any{"prefix": s.Choices, "trace": s.Trace})
							return
						}
					}
					h := sys.healthJSON()
					if bs, ok := h["backends"].(map[string]any); ok {
						if e, ok := bs["b0"].(map[string]any); ok {
							if hv, _ := e["healthy"].(bool); hv {
								o.Viol("C04|sched|metrics-reports-healthy|"+c.Kind, fmt.Sprintf("%s %s: b0 was just ejected for 30s but metrics /health says healthy; trace %v", c.Kind, c.Strategy, s.Trace), map[string]any{"prefix": s.Choices, "trace": s.Trace})
								return
							}
						}
					}
					for i := 0; i < 6; i++ {
						rec := sys.call("GET", "/after", fmt.Sprintf("10.1.1.%d:9", i), nil, nil)
						if servedBy(rec) == "b0" {
							o.Viol("C04|sched|traffic-inside-window|"+c.Kind, fmt.Sprintf("%s %s: b0 served a request right after being ejected for 30s; trace %v", c.Kind, c.Strategy, s.Trace), map[string]any{"prefix": s.Choices, "trace": s.Trace})
							return
						}
					}
				}
			}
			n, traces, _ := vh.Explore(world, -1, 400, 200, 0)
			o.Eval(int64(n))
			for t := range traces {
				o.Distinct(fmt.Sprintf("%v|%s", c, t))
			}
			o.Obs("distinct_interleavings", int64(len(traces)))
			if c.Strategy == "round_robin" {
				var one string
				for t := range traces {
					one = t
					break
				}
				o.Sample(map[string]any{"part": "schedules", "case": c, "interleavings": len(traces), "one_trace": one})
			}
		})
}

// ---- pools at and above the documented capacity of the metrics collector (1000 backends): health changes of
// backends that have a metrics entry are still reflected there
func init() {
	type c04Large struct {
		Strategy string `json:"strategy"`
		N        int    `json:"n_backends"`
	}
	vh.AddPart("C04", "large-pool", "sim", vh.Opts{Shards: 6, TimeoutS: 300},
		func(e *vh.Env) []c04Large {
			var cs []c04Large
			for i, n := range []int{999, 1000, 1200} {
				cs = append(cs, c04Large{allStrategies[i%5], n}, c04Large{allStrategies[(i+3)%5], n})
			}
			return cs
		},
		func(e *vh.Env, c c04Large, o *vh.Out) {
			o.Need("large_pool_reports_checked")
			cfg := baseConfig(c.Strategy, nil)
			for i := 0; i < c.N; i++ {
				cfg.Backends = append(cfg.Backends, config.BackendConfig{Name: fmt.Sprintf("n%04d", i), Address: "http://127.0.0.1:9", Weight: 1})
			}
			cfg.HealthChecks.Passive = config.PassiveHealthCheckConfig{Enabled: true, UnhealthyThreshold: 2, UnhealthyTimeout: 30}
			sys, err := startSys(cfg, nil, false)
			if err != nil {
				o.Inconcl("startSys: %v", err)
				return
			}
			defer sys.Close()
			live := sys.LB.VerifBackends()
			o.Eval(1)
			o.Distinct(vh.J(c))
			for _, idx := range []int{0, 499, 998, c.N - 1} {
				if idx >= len(live) {
					continue
				}
				b := live[idx]
				sys.LB.MarkBackendUnhealthy(b, 30*time.Second)
				vh.Settle()
				infos, _ := listBackends(sys.admin())
				for _, bi := range infos {
					if bi.Name == b.Name && bi.Healthy {
						o.Viol("C04|large-pool|admin-reports-healthy", fmt.Sprintf("%s, %d backends: %s was ejected a moment ago and /v1/backends reports it healthy", c.Strategy, c.N, b.Name), nil)
						return
					}
				}
				if bs, ok := sys.healthJSON()["backends"].(map[string]any); ok {
					if ent, ok := bs[b.Name].(map[string]any); ok {
						if hv, _ := ent["healthy"].(bool); hv {
							o.Viol("C04|large-pool|metrics-reports-healthy", fmt.Sprintf("%s, %d backends: %s (backend #%d) was ejected a moment ago and the metrics endpoint reports it healthy", c.Strategy, c.N, b.Name, idx), nil)
							return
						}
						o.Obs("large_pool_reports_checked", 1)
					}
				}
			}
			if c.N == 1000 {
				o.Sample(map[string]any{"part": "large-pool", "case": c})
			}
		})
}
