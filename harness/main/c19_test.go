package main

import (
	"fmt"
	"net"
	"os"
	"os/exec"
	"path/filepath"
	"strconv"
	"strings"
	"sync"
	"syscall"
	"time"

	"gopkg.in/yaml.v3"

	"github.com/0xReLogic/Helios/internal/config"
	vh "github.com/0xReLogic/Helios/internal/verifh"
)

// C19: graceful shutdown completes in time, drains requests, stops probing, closes pooled connections,
// and is harmless when repeated.

type c19Case struct {
	Strategy   string `json:"strategy"`
	Interval   int    `json:"probe_interval_s"`
	ProbeMs    int    `json:"probe_takes_ms"` // how long the backend's /health takes (may exceed the shutdown timeout)
	ProbeTO    int    `json:"probe_timeout_s"`
	ShutdownTO int    `json:"shutdown_timeout_s"`
	StopAtMs   int    `json:"stop_at_ms"` // virtual offset of the stop signal from balancer creation
	Inflight   string `json:"inflight"`   // none | headers (backend has not answered yet) | body (mid-body)
	ReqMs      int    `json:"request_takes_ms"`
	Mode       string `json:"mode"` // once | twice | concurrent | stop-only
	Pool       int    `json:"pooled_conns"`
	NoActive   bool   `json:"no_active_checks,omitempty"` // active health checks off: nothing to wait for, the rest of the shutdown is the same
	Tunnel     bool   `json:"open_tunnel,omitempty"`      // an upgraded (hijacked) connection is open through the proxy when the signal arrives and stays open
}

func c19Run(e *vh.Env, c c19Case, o *vh.Out) {
	bes := newBackends(2)
	defer closeBackends(bes)
	for _, b := range bes {
		b.SetProbe(200, time.Duration(c.ProbeMs)*time.Millisecond)
	}
	cfg := baseConfig(c.Strategy, bes)
	cfg.HealthChecks.Active = config.ActiveHealthCheckConfig{Enabled: !c.NoActive, Interval: c.Interval, Timeout: c.ProbeTO, Path: "/health"}
	cfg.HealthChecks.Passive = config.PassiveHealthCheckConfig{Enabled: true, UnhealthyThreshold: 3, UnhealthyTimeout: 30}
	cfg.Server.Timeouts = config.TimeoutConfig{Read: 30, Write: 30, Idle: 60, Shutdown: c.ShutdownTO, BackendRead: 30}
	if c.Pool != 0 { // -1: pool enabled but empty when the stop signal arrives
		cfg.LoadBalancer.WebSocketPool = config.WebSocketPoolConfig{Enabled: true, MaxIdle: 8, MaxActive: 16, IdleTimeoutSeconds: 600}
	}
	if err := cfg.Validate(); err != nil {
		o.Inconcl("config: %v", err)
		return
	}
	born := time.Now()
	sys, err := startSys(cfg, bes, true)
	if err != nil {
		o.Inconcl("startSys: %v", err)
		return
	}
	ctx := vh.J(c)
	sigc := fmt.Sprintf("%s|%s", c.Mode, c.Inflight)
	var pooled []*fakeConn
	if c.Pool > 0 {
		p := sys.LB.VerifWSPool()
		for i := 0; i < c.Pool; i++ {
			f := &fakeConn{id: i + 1}
			pooled = append(pooled, f)
			p.Put(fmt.Sprintf("b%d", i%2), f)
		}
	}
	// the in-flight request is started so that the stop signal arrives at the requested phase
	var reqRes *vh.RawResp
	reqDone := make(chan struct{})
	lead := 300 * time.Millisecond
	if c.Inflight != "none" {
		startAt := time.Duration(c.StopAtMs)*time.Millisecond - lead
		if startAt < 0 {
			startAt = 0
		}
		time.Sleep(startAt - time.Since(born))
		var sc vh.Script
		if c.Inflight == "headers" {
			// the backend sends its header block only after the stop signal
			sc = vh.Script{Status: 200, Framing: "cl", HoldFirstMs: c.ReqMs, Steps: []vh.Step{{Op: "write", N: 3000}}}
		} else {
			sc = vh.Script{Status: 200, Framing: "chunked", Steps: []vh.Step{{Op: "write", N: 1000}, {Op: "flush"}, {Op: "sleep", Ms: c.ReqMs}, {Op: "write", N: 2000}}}
		}
		hdr := [][2]string{{vh.ScriptHeader, sc.Encode()}}
		target := "/inflight"
		go func() {
			reqRes = vh.Do(sys.Addr, vh.RawReq{Method: "GET", Target: target, Headers: hdr, TimeoutMs: 120000})
			close(reqDone)
		}()
	} else {
		close(reqDone)
	}
	if c.Tunnel {
		// a protocol switch through the proxy; neither end closes it before the verdicts are in
		tc, err := net.Dial("tcp", sys.Addr)
		if err != nil {
			o.Inconcl("tunnel dial: %v", err)
			return
		}
		defer tc.Close()
		sc := vh.Script{Raw: "HTTP/1.1 101 Switching Protocols\r\nUpgrade: verif-proto\r\nConnection: Upgrade\r\n\r\n", RawHoldMs: 3600000}
		fmt.Fprintf(tc, "GET /tunnel HTTP/1.1\r\nHost: %s\r\nConnection: Upgrade\r\nUpgrade: verif-proto\r\n%s: %s\r\n\r\n", sys.Addr, vh.ScriptHeader, sc.Encode())
		tc.SetReadDeadline(time.Now().Add(20 * time.Second))
		buf := make([]byte, 4096)
		n, _ := tc.Read(buf)
		if !strings.HasPrefix(string(buf[:n]), "HTTP/1.1 101") {
			o.Inconcl("tunnel handshake answered %q", trunc(string(buf[:n]), 60))
			return
		}
		tc.SetReadDeadline(time.Time{})
		o.Obs("shutdowns_with_open_tunnel", 1)
	}
	time.Sleep(time.Duration(c.StopAtMs)*time.Millisecond - time.Since(born))
	probesBefore := len(bes[0].Probes()) + len(bes[1].Probes())
	_ = probesBefore
	shutdownTimeout := time.Duration(c.ShutdownTO) * time.Second
	t0 := time.Now()
	panicked := ""
	call := func() {
		defer func() {
			if r := recover(); r != nil {
				panicked = fmt.Sprint(r)
			}
		}()
		if c.Mode == "stop-only" {
			sys.LB.Stop()
		} else {
			callShutdown(sys.Srv, sys.LB, shutdownTimeout)
		}
	}
	var firstOnce sync.Once
	var firstReturnAt int64
	firstKept := false
	finished := make(chan struct{})
	go func() {
		defer close(finished)
		switch c.Mode {
		case "twice":
			call()
			call()
		case "concurrent":
			var wg sync.WaitGroup
			for i := 0; i < 2; i++ {
				wg.Add(1)
				go func() {
					defer wg.Done()
					call()
					// whichever call returns first: the shutdown is over for its caller
					firstOnce.Do(func() {
						firstReturnAt = vh.NowNS()
						if c.Pool != 0 && panicked == "" {
							late := &fakeConn{id: 98}
							kept := sys.LB.VerifWSPool().Put("b0", late)
							idle, _ := sys.LB.VerifWSPool().Stats("b0")
							firstKept = (kept || idle > 0) && !late.isClosed()
						}
					})
				}()
			}
			wg.Wait()
		default:
			call()
		}
	}()
	select {
	case <-finished:
	case <-time.After(10 * time.Minute):
		o.Viol("C19|never-returns|"+sigc, fmt.Sprintf("%s: shutdown had not returned after 10 virtual minutes", ctx), nil)
		return
	}
	took := time.Since(t0)
	returnedAt := vh.NowNS()
	if firstReturnAt != 0 {
		returnedAt = firstReturnAt // of two concurrent calls the first to return counts
	}
	o.Eval(1)
	o.Obs("shutdowns", 1)
	if panicked != "" {
		o.Viol("C19|panic|"+c.Mode, fmt.Sprintf("%s: shutdown panicked: %s", ctx, panicked), nil)
		return
	}
	if firstKept {
		o.Viol("C19|pool-keeps-conn-after-shutdown|first-of-two", fmt.Sprintf("%s: one of two concurrent shutdown calls had returned, and a connection handed to the pool at that moment was accepted and stays open", ctx), nil)
		return
	}
	// the in-flight request needs ReqMs-lead after the signal; anything beyond that and the configured timeout is too long
	if took > shutdownTimeout+time.Second {
		o.Viol("C19|too-slow|"+sigc, fmt.Sprintf("%s: shutdown took %v, the configured shutdown timeout is %v", ctx, took, shutdownTimeout), nil)
		return
	}
	// in-flight request: allowed to finish (it fits into the shutdown timeout by construction)
	select {
	case <-reqDone:
	case <-time.After(5 * time.Minute):
		o.Viol("C19|inflight-lost|"+sigc, fmt.Sprintf("%s: the request that was in flight never completed", ctx), nil)
		return
	}
	if c.Inflight != "none" && c.Mode != "stop-only" {
		if reqRes == nil || reqRes.Status != 200 || !reqRes.Complete || reqRes.BodyLen != 3000 {
			st, bl, er := 0, 0, ""
			if reqRes != nil {
				st, bl, er = reqRes.Status, reqRes.BodyLen, reqRes.Err
			}
			o.Viol("C19|inflight-cut|"+sigc, fmt.Sprintf("%s: the request in flight when the signal arrived (needs %d ms, shutdown timeout %d s) ended with status %d, %d of 3000 body bytes, err %q", ctx, c.ReqMs, c.ShutdownTO, st, bl, er), nil)
			return
		}
		o.Obs("inflight_completed", 1)
	}
	// no probe after shutdown returned: watch for five more intervals
	time.Sleep(time.Duration(5*c.Interval)*time.Second + time.Second)
	for _, b := range bes {
		for _, p := range b.Probes() {
			// a probe that was already on the wire when the signal came is journalled at the same virtual instant; later ones are new
			if p > returnedAt {
				o.Viol("C19|probe-after-shutdown|"+c.Mode, fmt.Sprintf("%s: a health probe arrived at %s %v after shutdown had returned", ctx, b.Name, time.Duration(p-returnedAt)), nil)
				return
			}
		}
	}
	o.Obs("probe_silence_checked", 1)
	for _, f := range pooled {
		if !f.isClosed() {
			o.Viol("C19|pooled-conn-open|"+c.Mode, fmt.Sprintf("%s: pooled connection #%d is still open after shutdown", ctx, f.id), nil)
			return
		}
	}
	if len(pooled) > 0 {
		o.Obs("pooled_closed", int64(len(pooled)))
	}
	if c.NoActive {
		o.Obs("shutdowns_without_active_checks", 1)
	}
	if c.Pool != 0 {
		// a tunnel that ends after shutdown hands its connection back: the pool must not keep it open
		p := sys.LB.VerifWSPool()
		late := &fakeConn{id: 99}
		kept := p.Put("b0", late)
		idle, _ := p.Stats("b0")
		if (kept || idle > 0) && !late.isClosed() {
			o.Viol("C19|pool-keeps-conn-after-shutdown|"+c.Mode, fmt.Sprintf("%s: a connection returned to the pool after shutdown was accepted (kept=%v, idle=%d) and stays open", ctx, kept, idle), nil)
			return
		}
		o.Obs("late_put_refused", 1)
	}
	// new connections are refused after a graceful shutdown of the server
	if c.Mode != "stop-only" {
		// no request is sent to the freed port (it may already belong to another process, whose accounting a stray
		// request would disturb): whether this process still listens is read from /proc
		_, portStr, _ := net.SplitHostPort(sys.Addr)
		port, _ := strconv.Atoi(portStr)
		if vh.PidListens(os.Getpid(), port) {
			o.Viol("C19|still-serving", fmt.Sprintf("%s: after shutdown the proxy listener is still open", ctx), nil)
		}
	} else {
		sys.Srv.Close()
	}
}

func init() {
	vh.AddPart("C19", "in-process", "sim", vh.Opts{Shards: 16, TimeoutS: 500, TimeoutSThorough: 3000},
		func(e *vh.Env) []c19Case {
			var cs []c19Case
			n := 0
			for _, interval := range []int{2, 10} {
				tick := interval * 1000
				probeVariants := [][2]int{{0, 1}, {500, 1}}
				if interval == 10 {
					probeVariants = [][2]int{{0, 3}, {500, 3}, {20000, 8}} // a hung health endpoint: probe timeout 8 s > shutdown timeout
				}
				for _, pv := range probeVariants {
					stops := []int{1, 300, tick - 1, tick, tick + 1, tick + 250, 2*tick - 1, 2*tick + 1, 3*tick + 700}
					for _, stopAt := range stops {
						for _, inflight := range []string{"none", "headers", "body"} {
							for _, mode := range []string{"once", "twice", "concurrent", "stop-only"} {
								if mode == "stop-only" && inflight != "none" {
									continue
								}
								if pv[0] == 20000 && inflight != "none" {
									continue // a hung health endpoint gets the backends ejected: no request can be in flight
								}
								n++
								if !e.Thorough() && n%2 != 0 && !(pv[0] == 20000 && inflight == "none") {
									continue
								}
								cs = append(cs, c19Case{Strategy: allStrategies[n%5], Interval: interval, ProbeMs: pv[0], ProbeTO: pv[1], ShutdownTO: 3, StopAtMs: stopAt,
									Inflight: inflight, ReqMs: 1500, Mode: mode, Pool: (n % 5) - 1})
							}
						}
					}
				}
			}
			// the smallest shutdown timeout the configuration accepts (1 s) with a request that needs half of it
			for i, mode := range []string{"once", "twice", "concurrent"} {
				for j, inflight := range []string{"headers", "body"} {
					cs = append(cs, c19Case{Strategy: allStrategies[(i+j+2)%5], Interval: 10, ProbeTO: 3, ShutdownTO: 1, StopAtMs: 1200 + 700*j, Inflight: inflight, ReqMs: 800, Mode: mode, Pool: i - 1})
				}
			}
			// an upgraded connection stays open across the shutdown: nobody waits for it
			for i, mode := range []string{"once", "concurrent", "stop-only", "twice"} {
				cs = append(cs, c19Case{Strategy: allStrategies[i%5], Interval: 2, ProbeTO: 1, ShutdownTO: 3, StopAtMs: 900 + 400*i, Inflight: "none", ReqMs: 1500, Mode: mode, Pool: i - 1, NoActive: i%2 == 1, Tunnel: true})
			}
			// the same without active health checks
			for i, mode := range []string{"once", "twice", "concurrent", "stop-only"} {
				for j, inflight := range []string{"none", "headers", "body"} {
					if mode == "stop-only" && inflight != "none" {
						continue
					}
					cs = append(cs, c19Case{Strategy: allStrategies[(i+j)%5], Interval: 2, ProbeTO: 1, ShutdownTO: 3, StopAtMs: 700 + 300*j, Inflight: inflight, ReqMs: 1500, Mode: mode, Pool: 2 - (i+j)%4, NoActive: true})
				}
			}
			return cs
		},
		func(e *vh.Env, c c19Case, o *vh.Out) {
			o.Need("shutdowns", "inflight_completed", "probe_silence_checked", "pooled_closed", "late_put_refused", "shutdowns_without_active_checks", "shutdowns_with_open_tunnel")
			c19Run(e, c, o)
			o.Distinct(vh.J(c))
			if c.Mode == "concurrent" && c.Inflight == "body" && c.Interval == 2 && c.StopAtMs == 2001 {
				o.Sample(map[string]any{"part": "in-process", "case": c})
			}
		})

	// ---- interleavings of Stop with the probe loop at the hook points
	type c19Sched struct {
		Strategy string `json:"strategy"`
		Stops    int    `json:"stops"`
	}
	vh.AddPart("C19", "stop-interleavings", "sim", vh.Opts{NoConfirm: true, Shards: 10, TimeoutS: 400},
		func(e *vh.Env) []c19Sched {
			var cs []c19Sched
			for _, st := range allStrategies {
				cs = append(cs, c19Sched{st, 1}, c19Sched{st, 2})
			}
			return cs
		},
		func(e *vh.Env, c c19Sched, o *vh.Out) {
			o.Need("schedules")
			bes := newBackends(2)
			defer closeBackends(bes)
			world := func(s *vh.Sched) func(*vh.Sched, vh.SchedResult) {
				for _, b := range bes {
					b.Reset()
					b.SetProbe(200, 0)
				}
				cfg := baseConfig(c.Strategy, bes)
				cfg.HealthChecks.Active = config.ActiveHealthCheckConfig{Enabled: true, Interval: 2, Timeout: 1, Path: "/health"}
				sys, err := startSys(cfg, bes, false)
				if err != nil {
					return nil
				}
				time.Sleep(100 * time.Millisecond) // initial probes done
				// the probe loop is caught at the next tick, just before it registers its probes
				s.Adopt = map[string]bool{"lb.probe.add": true, "lb.probe.send": true}
				s.Only = map[string]bool{"lb.probe.add": true, "lb.probe.send": true, "lb.stop.cancelled": true}
				time.Sleep(1900*time.Millisecond + time.Millisecond)
				var returnedAt []int64
				panics := ""
				for i := 0; i < c.Stops; i++ {
					s.Go(func() {
						defer func() {
							if r := recover(); r != nil {
								panics = fmt.Sprint(r)
							}
						}()
						sys.LB.Stop()
						returnedAt = append(returnedAt, vh.NowNS())
					})
				}
				return func(s *vh.Sched, r vh.SchedResult) {
					o.Obs("schedules", 1)
					tr := fmt.Sprint(s.Trace)
					if r.Deadlock {
						o.Viol("C19|sched|stop-blocked", fmt.Sprintf("%s: Stop never returned %v; trace %s", c.Strategy, r.Stuck, tr), map[string]any{"prefix": s.Choices, "trace": s.Trace})
						return
					}
					if panics != "" {
						o.Viol("C19|sched|panic", fmt.Sprintf("%s: Stop panicked: %s; trace %s", c.Strategy, panics, tr), map[string]any{"prefix": s.Choices, "trace": s.Trace})
						return
					}
					var last int64
					for _, t := range returnedAt {
						if t > last {
							last = t
						}
					}
					time.Sleep(7 * time.Second)
					for _, b := range bes {
						for _, p := range b.Probes() {
							if p > last {
								o.Viol("C19|sched|probe-after-stop", fmt.Sprintf("%s: a health probe reached %s %v after Stop had returned; trace %s", c.Strategy, b.Name, time.Duration(p-last), tr), map[string]any{"prefix": s.Choices, "trace": s.Trace})
								return
							}
						}
					}
				}
			}
			n, traces, _ := vh.Explore(world, -1, e.Pick(300, 3000), 300, 3*time.Second)
			o.Eval(int64(n))
			for t := range traces {
				o.Distinct(fmt.Sprintf("%v|%s", c, t))
			}
			o.Obs("distinct_interleavings", int64(len(traces)))
			if c.Strategy == "round_robin" {
				var one string
				for t := range traces {
					one = t
					break
				}
				o.Sample(map[string]any{"part": "stop-interleavings", "case": c, "interleavings": len(traces), "one_trace": one})
			}
		})

	// ---- process level: SIGTERM / SIGINT while a slow request is in flight
	type c19Proc struct {
		Signal  string `json:"signal"`
		AfterMs int    `json:"signal_after_ms"`
		ReqMs   int    `json:"request_takes_ms"`
		Phase   string `json:"phase"`
		Idx     int    `json:"idx"`
		// ShutdownS / UptimeMs: a shorter shutdown timeout and a process that has been up for longer than it
		ShutdownS int `json:"shutdown_timeout_s,omitempty"`
		UptimeMs  int `json:"uptime_before_request_ms,omitempty"`
		// Again: an impatient operator (or a supervisor) repeats the signal 100 ms later, during the drain
		Again bool `json:"signal_repeated,omitempty"`
	}
	vh.AddPart("C19", "process", "plain", vh.Opts{Shards: 8, Procs: 2, TimeoutS: 400, TimeoutSThorough: 1500, NeedBin: true},
		func(e *vh.Env) []c19Proc {
			var cs []c19Proc
			r := e.Rand("c19proc")
			for i := 0; i < e.Pick(10, 60); i++ {
				cs = append(cs, c19Proc{Signal: []string{"TERM", "INT"}[i%2], AfterMs: 50 + r.Intn(400), ReqMs: 700, Phase: []string{"body", "headers"}[(i/2)%2], Idx: i, Again: i%3 == 1})
			}
			// a process that has been up for longer than its shutdown timeout: the timeout counts from the signal
			for i := 0; i < e.Pick(4, 8); i++ {
				cs = append(cs, c19Proc{Signal: []string{"TERM", "INT"}[i%2], AfterMs: 100, ReqMs: 300, Phase: []string{"body", "headers"}[i%2], Idx: 100 + i, ShutdownS: 2, UptimeMs: 2600})
			}
			return cs
		},
		func(e *vh.Env, c c19Proc, o *vh.Out) {
			o.Need("process_runs", "process_clean_exits", "signals_after_uptime_beyond_shutdown_timeout", "signals_repeated_during_drain")
			be := vh.NewBackend("b0")
			defer be.Close()
			cfg := baseConfig("round_robin", []*vh.Backend{be})
			cfg.Server.Timeouts.Shutdown = 5
			if c.ShutdownS > 0 {
				cfg.Server.Timeouts.Shutdown = c.ShutdownS
			}
			cfg.Logging.Level = "info"
			cfg.HealthChecks.Active = config.ActiveHealthCheckConfig{Enabled: true, Interval: 1, Timeout: 0, Path: "/health"}
			cfg.HealthChecks.Active.Timeout = 1
			cfg.HealthChecks.Active.Interval = 2
			var cmd *exec.Cmd
			var exit chan error
			var addr, logp, upNote string
			var logf *os.File
			up, exitedEarly := false, false
			// a process that does not come up (its port can be taken by another process between the reservation and its
			// own bind) is started again on another port
			for attempt := 0; attempt < 4 && !up; attempt++ {
				cfg.Server.Port = freePort()
				data, _ := yaml.Marshal(cfg)
				path := filepath.Join(e.TmpDir, fmt.Sprintf("c19-%d-%d.yaml", c.Idx, attempt))
				os.WriteFile(path, data, 0o644)
				logp = path + ".log"
				logf, _ = os.Create(logp)
				cmd = exec.Command(e.BinPath, "-config", path)
				cmd.Stdout, cmd.Stderr = logf, logf
				if err := cmd.Start(); err != nil {
					o.Inconcl("start: %v", err)
					return
				}
				ex := make(chan error, 1)
				exit = ex
				go func(cm *exec.Cmd) { ex <- cm.Wait() }(cmd)
				addr = fmt.Sprintf("127.0.0.1:%d", cfg.Server.Port)
				exitedEarly = false
				upNote = "the process never listened on its port"
				for i := 0; i < 1000; i++ {
					// only talk to the port once this very process holds it
					if vh.PidListens(cmd.Process.Pid, cfg.Server.Port) {
						// a few attempts: on a loaded machine the first exchange through a fresh process can take seconds
						for try := 0; try < 5 && !up; try++ {
							rs := vh.Do(addr, vh.RawReq{Method: "GET", Target: "/up", TimeoutMs: 5000})
							up = rs.Status == 200
							upNote = fmt.Sprintf("status %d err %q", rs.Status, rs.Err)
						}
						break
					}
					select {
					case <-exit:
						exitedEarly = true
						i = 1000
					default:
					}
					time.Sleep(20 * time.Millisecond)
				}
				if !up && !exitedEarly {
					cmd.Process.Kill()
					<-exit
				}
			}
			if !up {
				o.Inconcl("binary did not come up in 4 starts (%s; exited early: %v; its port may have been taken by another process)", upNote, exitedEarly)
				return
			}
			if c.UptimeMs > 0 {
				time.Sleep(time.Duration(c.UptimeMs) * time.Millisecond)
				o.Obs("signals_after_uptime_beyond_shutdown_timeout", 1)
			}
			var sc vh.Script
			if c.Phase == "body" {
				sc = vh.Script{Status: 200, Framing: "chunked", Steps: []vh.Step{{Op: "write", N: 1000}, {Op: "flush"}, {Op: "sleep", Ms: c.ReqMs}, {Op: "write", N: 2000}}}
			} else {
				sc = vh.Script{Status: 200, Framing: "cl", HoldFirstMs: c.ReqMs, Steps: []vh.Step{{Op: "write", N: 3000}}}
			}
			var rs *vh.RawResp
			done := make(chan struct{})
			go func() {
				rs = vh.Do(addr, vh.RawReq{Method: "GET", Target: "/slow", Headers: [][2]string{{vh.ScriptHeader, sc.Encode()}}, TimeoutMs: 20000})
				close(done)
			}()
			time.Sleep(time.Duration(c.AfterMs) * time.Millisecond)
			sig := syscall.SIGTERM
			if c.Signal == "INT" {
				sig = syscall.SIGINT
			}
			t0 := time.Now()
			cmd.Process.Signal(sig)
			if c.Again {
				time.Sleep(100 * time.Millisecond)
				cmd.Process.Signal(sig)
				o.Obs("signals_repeated_during_drain", 1)
			}
			o.Eval(1)
			o.Obs("process_runs", 1)
			o.Distinct(vh.J(c))
			ctx := vh.J(c)
			var exitErr error
			select {
			case exitErr = <-exit:
			case <-time.After(15 * time.Second):
				cmd.Process.Kill()
				<-exit
				o.Inconcl("%s: the process had not exited 15 s (real time) after the signal - wall-clock watchdog, no verdict", ctx)
				return
			}
			took := time.Since(t0)
			logf.Close()
			out, _ := os.ReadFile(logp)
			<-done
			if exitErr != nil {
				o.Viol("C19|process|exit-status|"+c.Signal, fmt.Sprintf("%s: exited with %v after SIG%s: %s", ctx, exitErr, c.Signal, trunc(string(out[max0(len(out)-400):]), 400)), nil)
				return
			}
			if strings.Contains(string(out), "panic:") {
				o.Viol("C19|process|panic", fmt.Sprintf("%s: panic during shutdown: %s", ctx, trunc(string(out), 600)), nil)
				return
			}
			if rs == nil || rs.Status != 200 || !rs.Complete || rs.BodyLen != 3000 {
				st, bl, er := 0, 0, ""
				if rs != nil {
					st, bl, er = rs.Status, rs.BodyLen, rs.Err
				}
				o.Viol("C19|process|inflight-cut|"+c.Phase, fmt.Sprintf("%s: the request in flight at SIG%s (needs %d ms, shutdown timeout %d s) ended with status %d, %d of 3000 bytes, err %q; process exited after %v", ctx, c.Signal, c.ReqMs, cfg.Server.Timeouts.Shutdown, st, bl, er, took), nil)
				return
			}
			// the wording of the log is not part of the property: the request in flight was served in full and the process
			// exited 0 within the timeout - that is the graceful path. The message is only counted.
			if strings.Contains(string(out), "server shutdown complete") {
				o.Obs("process_shutdown_messages_seen", 1)
			}
			o.Obs("process_clean_exits", 1)
			if c.Idx == 0 {
				o.Sample(map[string]any{"part": "process", "case": c, "exit": "0", "took_real": took.String()})
			}
		})
}

func max0(x int) int {
	if x < 0 {
		return 0
	}
	return x
}
