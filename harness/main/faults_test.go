package main

import (
	"fmt"
	"time"

	"github.com/0xReLogic/Helios/internal/config"
	vh "github.com/0xReLogic/Helios/internal/verifh"
)

// Shared fault alphabet of C03 (containment) and C13 (accounting).
//
//	ok     200 with a body                     n4     404
//	f5     500                                 refuse all backends refuse connections
//	hang   backend never sends headers         reset  backend resets after headers+some body
//	short  declared length > sent, then close  garb   backend answers with non-HTTP bytes
//	slow   body dripped with 1 s pauses        cup    client resets mid-upload
//	stall  headers and 100 body bytes, then silence (C03 only)
//	cdown  client resets mid-download (backend still dripping)
var faultKinds = []string{"refuse", "hang", "reset", "short", "garb", "f5", "slow", "cup", "cdown"}

type faultResult struct {
	Status   int
	Err      string
	Complete bool
	Dur      time.Duration
	Body     string
}

// featureCfg selects which features are on.
type featureCfg struct {
	Breaker bool   `json:"breaker"`
	Limiter bool   `json:"limiter"`
	Active  bool   `json:"active"`
	Passive bool   `json:"passive"`
	Chain   string `json:"chain"` // "" | logging | full
}

func (f featureCfg) String() string {
	return fmt.Sprintf("breaker=%v limiter=%v active=%v passive=%v chain=%q", f.Breaker, f.Limiter, f.Active, f.Passive, f.Chain)
}

func faultConfig(strategy string, bes []*vh.Backend, f featureCfg) *config.Config {
	cfg := baseConfig(strategy, bes)
	// all different, so that a timeout wired to the wrong setting shows
	cfg.Server.Timeouts = config.TimeoutConfig{Read: 5, Write: 6, Idle: 10, BackendDial: 1, BackendRead: 2, BackendIdle: 9, Shutdown: 4}
	if f.Breaker {
		cfg.CircuitBreaker = config.CircuitBreakerConfig{Enabled: true, FailureThreshold: 2, SuccessThreshold: 1, IntervalSeconds: 20, TimeoutSeconds: 30}
	}
	if f.Limiter {
		cfg.RateLimit = config.RateLimitConfig{Enabled: true, MaxTokens: 1000, RefillRate: 1}
	}
	if f.Active {
		cfg.HealthChecks.Active = config.ActiveHealthCheckConfig{Enabled: true, Interval: 7, Timeout: 2, Path: "/health"}
	}
	cfg.HealthChecks.Passive = config.PassiveHealthCheckConfig{Enabled: f.Passive, UnhealthyThreshold: 2, UnhealthyTimeout: 30}
	switch f.Chain {
	case "logging":
		cfg.Plugins = config.PluginsConfig{Enabled: true, Chain: []config.PluginConfig{{Name: "logging"}}}
	case "full":
		cfg.Plugins = config.PluginsConfig{Enabled: true, Chain: []config.PluginConfig{
			{Name: "logging"}, {Name: "request-id"},
			{Name: "size_limit", Config: map[string]interface{}{"max_request_body": 1 << 20, "max_response_body": 1 << 20}},
			{Name: "gzip", Config: map[string]interface{}{"level": 5, "min_size": 64, "content_types": []interface{}{"text/", "application/json"}}},
			{Name: "headers", Config: map[string]interface{}{"set": map[string]interface{}{"X-App": "Helios"}}},
		}}
	}
	return cfg
}

// doFault issues one request of the given kind.
func doFault(sys *Sys, kind string, extraHdr [][2]string) faultResult {
	var sc vh.Script
	rq := vh.RawReq{Method: "POST", Target: "/f/" + kind, BodyLen: 64, TimeoutMs: 60000}
	switch kind {
	case "ok":
		sc = vh.Script{Status: 200, Headers: [][2]string{{"Content-Type", "text/plain"}}, Steps: []vh.Step{{Op: "write", N: 200}}}
	case "n4":
		sc = vh.Script{Status: 404, Steps: []vh.Step{{Op: "write", N: 9}}}
	case "f5":
		sc = vh.Script{Status: 500, Steps: []vh.Step{{Op: "write", N: 9}}}
	case "refuse":
		for _, b := range sys.Backends {
			b.Down()
		}
		defer func() {
			for _, b := range sys.Backends {
				b.Up()
			}
		}()
	case "hang":
		sc = vh.Script{HangFirst: true} // never sends a header block
	case "reset":
		sc = vh.Script{Status: 200, Framing: "cl", Declared: 4000, Steps: []vh.Step{{Op: "write", N: 1000}, {Op: "flush"}, {Op: "reset"}}}
	case "short":
		sc = vh.Script{Status: 200, Framing: "cl", Declared: 5000, Steps: []vh.Step{{Op: "write", N: 100}, {Op: "flush"}, {Op: "closeconn"}}}
	case "garb":
		sc = vh.Script{Raw: "NOT-HTTP garbage\r\n\r\n\x00\x01\x02"}
	case "slow":
		sc = vh.Script{Status: 200, Framing: "chunked", Steps: []vh.Step{{Op: "write", N: 100}, {Op: "flush"}, {Op: "sleep", Ms: 1000}, {Op: "write", N: 100}, {Op: "flush"}, {Op: "sleep", Ms: 1000}, {Op: "write", N: 100}, {Op: "flush"}, {Op: "sleep", Ms: 1000}, {Op: "write", N: 100}}}
	case "stall":
		// headers and a first piece of the body, then silence for as long as the connection lasts
		sc = vh.Script{Status: 200, Framing: "chunked", Steps: []vh.Step{{Op: "write", N: 100}, {Op: "flush"}, {Op: "hang"}}}
	case "stall-up":
		// the same against a chunked upload that announces a trailer
		sc = vh.Script{Status: 200, Framing: "chunked", Steps: []vh.Step{{Op: "write", N: 100}, {Op: "flush"}, {Op: "hang"}}}
		rq.Chunked, rq.ChunkSize = true, 16
		rq.Trailers = [][2]string{{"X-Checksum", "abc"}}
	case "stall-upg":
		// the same for a client that offers a protocol upgrade which the backend does not take up (it answers 200)
		sc = vh.Script{Status: 200, Framing: "chunked", Steps: []vh.Step{{Op: "write", N: 100}, {Op: "flush"}, {Op: "hang"}}}
		rq.Method, rq.BodyLen = "GET", 0
		extraHdr = append(extraHdr, [2]string{"Connection", "Upgrade"}, [2]string{"Upgrade", "h2c"})
	case "short-chunked":
		// a chunked body that ends without its terminating chunk: the client must be able to tell
		sc = vh.Script{Status: 200, Framing: "chunked", Steps: []vh.Step{{Op: "write", N: 3000}, {Op: "flush"}, {Op: "closeconn"}}}
	case "holdtrial":
		sc = vh.Script{Status: 200, Steps: []vh.Step{{Op: "hold", Key: "trial"}, {Op: "write", N: 10}}}
	case "cup":
		sc = vh.Script{Status: 200, Steps: []vh.Step{{Op: "write", N: 10}}}
		rq.BodyLen = 200000
		rq.AbortAfter = 70000
	case "cdown":
		sc = vh.Script{Status: 200, Framing: "chunked", Steps: []vh.Step{{Op: "write", N: 50000}, {Op: "flush"}, {Op: "sleep", Ms: 500}, {Op: "write", N: 50000}, {Op: "flush"}, {Op: "sleep", Ms: 500}, {Op: "write", N: 50000}}}
		rq.StopAfter = 20000
	}
	rq.Headers = append([][2]string{{vh.ScriptHeader, sc.Encode()}}, extraHdr...)
	rs := vh.Do(sys.Addr, rq)
	return faultResult{Status: rs.Status, Err: rs.Err, Complete: rs.Complete, Dur: time.Duration(rs.DurNS), Body: trunc(string(rs.Body), 80)}
}

