package main

import (
	"testing"

	"github.com/0xReLogic/Helios/internal/verifh"
)

// TestMain never runs tests: it dispatches to the verification harness.
func TestMain(m *testing.M) {
	_ = m
	verifh.Main()
}
