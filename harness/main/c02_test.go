package main

import (
	"fmt"
	"math/rand"
	"net/http/httptest"
	"runtime"
	"strings"
	"sync"
	"sync/atomic"
	"time"

	"github.com/0xReLogic/Helios/internal/config"
	vh "github.com/0xReLogic/Helios/internal/verifh"
)

// C02: a request is dispatched only to a backend outside its unhealthy window,
// and answered "no healthy backend" only if every backend is inside one.

// eligModel is the eligible-set model E(t).
type eligModel struct {
	until map[string]time.Time // ejected until (absent: never ejected / re-added)
	names []string             // current members in order of addition
}

func newEligModel() *eligModel { return &eligModel{until: map[string]time.Time{}} }

// status: +1 eligible, -1 ejected, 0 on a window boundary (not asserted)
func (m *eligModel) status(name string, now time.Time) int {
	u, ok := m.until[name]
	if !ok {
		return 1
	}
	d := now.Sub(u)
	if d > -time.Millisecond && d < time.Millisecond {
		return 0
	}
	if d > 0 {
		return 1
	}
	return -1
}

func (m *eligModel) has(name string) bool {
	for _, n := range m.names {
		if n == name {
			return true
		}
	}
	return false
}

// c02Check applies the C02 oracle to one response. Returns false on violation.
func c02Check(m *eligModel, now time.Time, code int, by, body string, ctx string, sig string, o *vh.Out) bool {
	nElig, nBoundary := 0, 0
	for _, n := range m.names {
		switch m.status(n, now) {
		case 1:
			nElig++
		case 0:
			nBoundary++
		}
	}
	switch {
	case code == 200 && by != "":
		if !m.has(by) {
			o.Viol("C02|served-by-unlisted|"+sig, fmt.Sprintf("%s: served by %s which is not a member of the pool", ctx, by), nil)
			return false
		}
		if m.status(by, now) == -1 {
			o.Viol("C02|served-by-ejected|"+sig, fmt.Sprintf("%s: served by %s, which is inside its unhealthy window (until +%v)", ctx, by, m.until[by].Sub(now)), nil)
			return false
		}
		o.Obs("served_ok", 1)
	case code == 503 && by == "":
		// Helios's own 503 (no backend stamped the answer; nothing else in these configurations refuses requests):
		// "no healthy backend", whatever the wording
		if nElig > 0 {
			o.Viol("C02|503-with-healthy-backend|"+sig, fmt.Sprintf("%s: answered 'no healthy backend' although %d backend(s) are outside any unhealthy window", ctx, nElig), nil)
			return false
		}
		o.Obs("no_backend_503", 1)
	default:
		o.Viol("C02|unexpected-response|"+sig, fmt.Sprintf("%s: status %d body %q with all backends alive", ctx, code, trunc(body, 60)), nil)
		return false
	}
	return true
}

type c02Sub struct {
	Strategy string `json:"strategy"`
	N        int    `json:"n"`
	Inflight []int  `json:"inflight"`
	Weights  []int  `json:"weights,omitempty"`
}

var c02Clients = []string{"10.0.0.1", "10.0.0.2", "192.168.7.9", "2001:db8::7", "172.16.3.3", "8.8.4.4", "203.0.113.77", "198.51.100.1"}

func init() {
	vh.AddPart("C02", "subsets", "sim", vh.Opts{Shards: 16, TimeoutS: 400, TimeoutSThorough: 3000},
		func(e *vh.Env) []c02Sub {
			var cs []c02Sub
			maxN := e.Pick(5, 6)
			for _, st := range allStrategies {
				for n := 1; n <= maxN; n++ {
					// in-flight vectors from {0,1,2}^n: all for n<=3 (quick) / n<=4 (thorough), seeded beyond
					var vecs [][]int
					full := n <= e.Pick(4, 5)
					if st != "least_connections" {
						vecs = [][]int{make([]int, n)}
						if n >= 2 {
							v := make([]int, n)
							v[0] = 2
							vecs = append(vecs, v)
						}
					} else if full {
						tot := 1
						for i := 0; i < n; i++ {
							tot *= 3
						}
						for x := 0; x < tot; x++ {
							v := make([]int, n)
							y := x
							for i := 0; i < n; i++ {
								v[i] = y % 3
								y /= 3
							}
							vecs = append(vecs, v)
						}
					} else {
						r := e.Rand("c02vec", st, n)
						for k := 0; k < 20; k++ {
							v := make([]int, n)
							for i := range v {
								v[i] = r.Intn(3)
							}
							vecs = append(vecs, v)
						}
					}
					if st == "least_connections" {
						// heavily loaded backends: in-flight counts around the transport's per-host limit (100) and far beyond
						for _, big := range []int{99, 100, 101, 5000} {
							v := make([]int, n)
							for i := range v {
								v[i] = big + i%2
							}
							vecs = append(vecs, v)
						}
					}
					for _, v := range vecs {
						c := c02Sub{Strategy: st, N: n, Inflight: v}
						if st == "weighted_round_robin" {
							// several weight shapes: mixed, heavy head, heavy tail (the rotation position matters for smooth WRR)
							for shape := 0; shape < 3; shape++ {
								cw := c
								cw.Weights = make([]int, n)
								for i := range cw.Weights {
									switch {
									case shape == 0:
										cw.Weights[i] = 1 + (i*2)%3
									case shape == 1 && i == 0, shape == 2 && i == n-1:
										cw.Weights[i] = 7
									default:
										cw.Weights[i] = 1
									}
								}
								cs = append(cs, cw)
							}
							continue
						}
						cs = append(cs, c)
					}
				}
			}
			return cs
		},
		func(e *vh.Env, c c02Sub, o *vh.Out) {
			o.Need("served_ok", "no_backend_503", "subsets")
			bes := newBackends(c.N)
			defer closeBackends(bes)
			rot := c.N // number of distinct rotation positions
			if c.Weights != nil {
				rot = 0
				for _, w := range c.Weights {
					rot += w
				}
			}
			for mask := 0; mask < 1<<uint(c.N); mask++ {
				for offset := 0; offset < rot; offset++ {
					cfg := baseConfig(c.Strategy, bes)
					for i := range cfg.Backends {
						if c.Weights != nil {
							cfg.Backends[i].Weight = c.Weights[i]
						}
					}
					sys, err := startSys(cfg, bes, false)
					if err != nil {
						o.Inconcl("startSys: %v", err)
						return
					}
					m := newEligModel()
					live := sys.LB.VerifBackends()
					for _, b := range live {
						m.names = append(m.names, b.Name)
					}
					t0 := time.Now()
					// rotation position: warm-up picks while everything is healthy
					for k := 0; k < offset; k++ {
						w := sys.call("GET", "/warm", "10.9.9.9:1", nil, nil)
						if !c02Check(m, time.Now(), w.Code, servedBy(w), w.Body.String(), "warm-up", c.Strategy, o) {
							sys.Close()
							return
						}
					}
					for i, b := range live {
						for k := 0; k < c.Inflight[i]; k++ {
							b.IncrementConnections()
						}
						if mask&(1<<uint(i)) != 0 {
							sys.LB.MarkBackendUnhealthy(b, 30*time.Second)
							m.until[b.Name] = time.Now().Add(30 * time.Second)
						}
					}
					ctx := fmt.Sprintf("%s n=%d ejected-mask=%0*b offset=%d inflight=%v", c.Strategy, c.N, c.N, mask, offset, c.Inflight)
					ok := true
					for ci, cl := range c02Clients {
						if ci >= 3 && !strings.HasPrefix(c.Strategy, "ip_hash") {
							// other strategies ignore the client address: a few requests walk the rotation
						}
						w := sys.call("GET", "/x", cl+":5000", nil, nil)
						o.Eval(1)
						if !c02Check(m, time.Now(), w.Code, servedBy(w), w.Body.String(), ctx+" client="+cl, c.Strategy, o) {
							ok = false
							break
						}
					}
					if vh.IsSim && vh.Took(time.Since(t0)) {
						vh.FlagAnomaly()
					}
					sys.Close()
					o.Obs("subsets", 1)
					o.Distinct(fmt.Sprintf("%s|%d|%d|%d|%v", c.Strategy, c.N, mask, offset, c.Inflight))
					if !ok {
						return
					}
				}
			}
			if c.N == 3 && c.Strategy == "round_robin" && c.Inflight[0] == 0 {
				o.Sample(map[string]any{"part": "subsets", "case": c, "enumerated": "all 2^n ejected subsets x n rotation offsets x 8 client addresses"})
			}
		})

	// ---- seeded histories of ejections, expiries, adds, removes, strategy switches
	type c02Hist struct {
		Strategy string `json:"strategy"`
		Idx      int    `json:"idx"`
		Len      int    `json:"len"`
		Passive  bool   `json:"passive"`
		Active   bool   `json:"active"` // active probes on (slow /health): ejections may overlap an in-flight successful probe
	}
	vh.AddPart("C02", "histories", "sim", vh.Opts{Shards: 16, TimeoutS: 400, TimeoutSThorough: 3000},
		func(e *vh.Env) []c02Hist {
			var cs []c02Hist
			for _, st := range allStrategies {
				for i := 0; i < e.Pick(300, 3000); i++ {
					cs = append(cs, c02Hist{st, i, 8 + i%9, i%3 == 0, i%4 == 1})
				}
			}
			return cs
		},
		func(e *vh.Env, c c02Hist, o *vh.Out) {
			o.Need("served_ok", "ops_eject", "ops_advance")
			r := e.Rand("c02hist", c.Strategy, c.Idx)
			pool := newBackends(6)
			defer closeBackends(pool)
			n0 := 1 + r.Intn(4)
			cfg := baseConfig(c.Strategy, pool[:n0])
			if c.Passive {
				cfg.HealthChecks.Passive = config.PassiveHealthCheckConfig{Enabled: true, UnhealthyThreshold: 1, UnhealthyTimeout: 30}
			}
			if c.Active {
				cfg.HealthChecks.Active = config.ActiveHealthCheckConfig{Enabled: true, Interval: 10, Timeout: 2, Path: "/health"}
				cfg.HealthChecks.Passive.UnhealthyTimeout = 30
				for _, b := range pool {
					b.SetProbe(200, 500*time.Millisecond)
				}
			}
			born := time.Now()
			sys, err := startSys(cfg, pool, false)
			if err != nil {
				o.Inconcl("startSys: %v", err)
				return
			}
			defer sys.Close()
			adm := sys.admin()
			m := newEligModel()
			for _, b := range pool[:n0] {
				m.names = append(m.names, b.Name)
			}
			var ops []string
			o.Eval(1)
			strat := c.Strategy
			for step := 0; step < c.Len; step++ {
				t0 := time.Now()
				instant := true
				k := r.Intn(10)
				if c.Active && r.Intn(4) == 0 {
					// move to just after the next probe tick: successful probes are now in flight
					el := time.Since(born)
					time.Sleep((el/(10*time.Second)+1)*10*time.Second - el + 100*time.Millisecond)
					ops = append(ops, "to-tick+100ms")
					o.Obs("ops_tick", 1)
					k = r.Intn(3) // followed by an ejection
				} else if vh.IsSim && vh.Took(time.Since(t0)) {
					vh.FlagAnomaly()
				}
				t0 = time.Now()
				switch {
				case k < 3: // eject through the API
					if len(m.names) == 0 {
						continue
					}
					name := m.names[r.Intn(len(m.names))]
					d := []time.Duration{5 * time.Second, 30 * time.Second}[r.Intn(2)]
					sys.LB.MarkBackendUnhealthy(sys.liveBackend(name), d)
					m.until[name] = time.Now().Add(d)
					ops = append(ops, fmt.Sprintf("eject(%s,%v)", name, d))
					o.Obs("ops_eject", 1)
				case k < 5: // time passes
					d := []time.Duration{1100 * time.Millisecond, 6100 * time.Millisecond, 31100 * time.Millisecond}[r.Intn(3)]
					time.Sleep(d)
					instant = false
					ops = append(ops, fmt.Sprintf("advance(%v)", d))
					o.Obs("ops_advance", 1)
				case k < 6: // add
					var cand []string
					for _, b := range pool {
						if !m.has(b.Name) {
							cand = append(cand, b.Name)
						}
					}
					if len(cand) == 0 {
						continue
					}
					name := cand[r.Intn(len(cand))]
					var url string
					for _, b := range pool {
						if b.Name == name {
							url = b.URL
						}
					}
					w := adminDo(adm, "POST", "/v1/backends/add", "127.0.0.1:1", nil, fmt.Sprintf(`{"name":%q,"address":%q,"weight":%d}`, name, url, 1+r.Intn(3)))
					if w.Code != 201 {
						o.Viol("C02|hist|add-failed", fmt.Sprintf("add %s returned %d", name, w.Code), ops)
						return
					}
					m.names = append(m.names, name)
					delete(m.until, name)
					ops = append(ops, "add("+name+")")
				case k < 7: // remove
					if len(m.names) == 0 {
						continue
					}
					name := m.names[r.Intn(len(m.names))]
					adminDo(adm, "POST", "/v1/backends/remove", "127.0.0.1:1", nil, fmt.Sprintf(`{"name":%q}`, name))
					for i, n := range m.names {
						if n == name {
							m.names = append(m.names[:i:i], m.names[i+1:]...)
							break
						}
					}
					delete(m.until, name)
					ops = append(ops, "remove("+name+")")
				case k < 8: // strategy switch keeps members and health
					strat = allStrategies[r.Intn(len(allStrategies))]
					w := adminDo(adm, "POST", "/v1/strategy", "127.0.0.1:1", nil, fmt.Sprintf(`{"strategy":%q}`, strat))
					if w.Code != 200 {
						o.Viol("C02|hist|switch-failed", fmt.Sprintf("switch to %s returned %d", strat, w.Code), ops)
						return
					}
					ops = append(ops, "strategy("+strat+")")
				default: // requests
					nreq := 1 + r.Intn(5)
					ops = append(ops, fmt.Sprintf("request x%d", nreq))
					for q := 0; q < nreq; q++ {
						cl := c02Clients[r.Intn(len(c02Clients))]
						var hdr [][2]string
						fail := c.Passive && r.Intn(6) == 0
						if fail {
							hdr = append(hdr, [2]string{vh.ScriptHeader, vh.Script{Status: 500, Headers: [][2]string{{"X-Backend", "?"}}}.Encode()})
						}
						before := map[string]int{}
						for _, b := range pool {
							before[b.Name] = b.Count()
						}
						w := sys.call("GET", "/h", cl+":7", hdr, nil)
						now := time.Now()
						if len(m.names) == 0 {
							if w.Code != 503 {
								o.Viol("C02|hist|empty-pool", fmt.Sprintf("empty pool answered %d", w.Code), ops)
								return
							}
							continue
						}
						by := servedBy(w)
						code := w.Code
						if fail && w.Code == 500 {
							// find who served it from the journals; passive ejection (threshold 1) follows
							for _, b := range pool {
								if b.Count() > before[b.Name] {
									by = b.Name
								}
							}
							code = 200
							if !c02Check(m, now, code, by, "", fmt.Sprintf("%s after %v (failing request)", strat, ops), "hist|"+strat, o) {
								return
							}
							m.until[by] = now.Add(30 * time.Second)
							o.Obs("passive_ejections", 1)
							continue
						}
						if !c02Check(m, now, code, by, w.Body.String(), fmt.Sprintf("%s after %v client=%s", strat, ops, cl), "hist|"+strat, o) {
							return
						}
					}
				}
				if instant && vh.IsSim && vh.Took(time.Since(t0)) {
					vh.FlagAnomaly()
				}
			}
			o.Distinct(fmt.Sprintf("%s|%v", c.Strategy, ops))
			if c.Idx == 1 {
				o.Sample(map[string]any{"part": "histories", "strategy": c.Strategy, "ops": ops})
			}
		})
}

// ---- pickers racing ejections (real threads, race-detector build): while some backend stays eligible throughout,
// no pick may come back empty and no request may be refused, whatever the timing of the ejection of the others
func init() {
	type c02Conc struct {
		Strategy string `json:"strategy"`
		N        int    `json:"n_backends"`
		G        int    `json:"pickers"`
		Round    int    `json:"round"`
	}
	vh.AddPart("C02", "concurrent", "race", vh.Opts{Procs: 16, TimeoutS: 300, TimeoutSThorough: 1500},
		func(e *vh.Env) []c02Conc {
			var cs []c02Conc
			for _, st := range allStrategies {
				for _, n := range []int{2, 3, 6} {
					for r := 0; r < e.Pick(2, 6); r++ {
						cs = append(cs, c02Conc{st, n, []int{4, 8, 16}[r%3], r})
					}
				}
			}
			return cs
		},
		func(e *vh.Env, c c02Conc, o *vh.Out) {
			o.Need("concurrent_picks", "ejections_during_picks")
			cfg := baseConfig(c.Strategy, nil)
			for i := 0; i < c.N; i++ {
				cfg.Backends = append(cfg.Backends, config.BackendConfig{Name: fmt.Sprintf("b%d", i), Address: "http://127.0.0.1:9", Weight: 1 + i%3})
			}
			sys, err := startSys(cfg, nil, false)
			if err != nil {
				o.Inconcl("startSys: %v", err)
				return
			}
			defer sys.Close()
			live := sys.LB.VerifBackends()
			// the last backend is never touched: it is eligible at every instant
			var stop atomic.Bool
			var ejections atomic.Int64
			var ewg sync.WaitGroup
			for k := 0; k < c.N-1; k++ {
				k := k
				ewg.Add(1)
				go func() {
					defer ewg.Done()
					r := rand.New(rand.NewSource(e.Seed*31 + int64(c.Round)*7 + int64(k)))
					for !stop.Load() {
						sys.LB.MarkBackendUnhealthy(live[k], time.Duration(r.Intn(300))*time.Microsecond)
						ejections.Add(1)
						if r.Intn(4) == 0 {
							time.Sleep(time.Duration(r.Intn(200)) * time.Microsecond)
						} else {
							runtime.Gosched()
						}
					}
				}()
			}
			per := e.Pick(4000, 15000)
			var wg sync.WaitGroup
			var empty, picks atomic.Int64
			firstEmpty := make([]string, c.G)
			for g := 0; g < c.G; g++ {
				g := g
				wg.Add(1)
				go func() {
					defer wg.Done()
					for i := 0; i < per; i++ {
						rq := httptest.NewRequest("GET", "/c", nil)
						rq.Header.Set("X-Forwarded-For", fmt.Sprintf("10.2.%d.%d", g, i%250))
						picks.Add(1)
						if b := sys.LB.NextBackend(rq); b == nil {
							empty.Add(1)
							if firstEmpty[g] == "" {
								firstEmpty[g] = fmt.Sprintf("picker %d, pick %d, client 10.2.%d.%d", g, i, g, i%250)
							}
						}
					}
				}()
			}
			wg.Wait()
			stop.Store(true)
			ewg.Wait()
			o.Eval(1)
			o.Distinct(vh.J(c))
			o.Obs("concurrent_picks", picks.Load())
			o.Obs("ejections_during_picks", ejections.Load())
			if n := empty.Load(); n > 0 {
				w := ""
				for _, f := range firstEmpty {
					if f != "" {
						w = f
						break
					}
				}
				o.Viol("C02|concurrent|empty-pick-with-eligible-backend|"+c.Strategy, fmt.Sprintf("%s, %d backends, %d pickers: %d of %d picks returned no backend although b%d was never ejected (%s)", c.Strategy, c.N, c.G, n, picks.Load(), c.N-1, w), nil)
			}
			if c.Strategy == "ip_hash" && c.N == 3 && c.Round == 0 {
				o.Sample(map[string]any{"part": "concurrent", "case": c, "picks": picks.Load(), "ejections": ejections.Load()})
			}
		})
}
