package main

import (
	"strconv"
	"runtime"
	"fmt"
	"net"
	"net/http"
	"sort"
	"strings"
	"sync"
	"sync/atomic"
	"time"

	"github.com/anishathalye/porcupine"
	"github.com/gorilla/websocket"

	"github.com/0xReLogic/Helios/internal/config"
	"github.com/0xReLogic/Helios/internal/loadbalancer"
	vh "github.com/0xReLogic/Helios/internal/verifh"
	"github.com/0xReLogic/Helios/internal/vhook"
)

// C20: WebSocket tunnelling and the connection pool.

// ------------------------------------------------------------------ tunnel

type wsMsg struct {
	Type int    `json:"type"` // 1 text, 2 binary
	Len  int    `json:"len"`
	Hash uint64 `json:"hash"`
}

type wsScript struct {
	Client      []int  `json:"client"` // message sizes sent by the client (type alternates)
	Backend     []int  `json:"backend"`
	PauseMs     int    `json:"pause_ms"`     // both sides pause in the middle of their sequence
	BackendEnds bool   `json:"backend_ends"` // who closes
	Lockstep    bool   `json:"lockstep"`     // echo-style alternation instead of free interleaving
	ID          string `json:"id"`
}

type c20Tunnel struct {
	Strategy string   `json:"strategy"`
	Chain    string   `json:"chain"` // letters: L logging, S size_limit, G gzip, H headers, R request-id
	GzipHS   bool     `json:"gzip_handshake"`
	HSForm   int      `json:"handshake_form,omitempty"` // 0 "Connection: Upgrade", 1 "keep-alive, Upgrade" (as Firefox sends), 2 lower-case tokens
	Handler  int      `json:"handler_timeout"`
	Pool     bool     `json:"ws_pool"`
	Breaker  bool     `json:"breaker,omitempty"` // circuit breaker on, one failed plain request before the session: a successful session is not a failure
	Script   wsScript `json:"script"`
}

func wsPayload(id string, side byte, i, n int) (int, []byte) {
	typ := websocket.TextMessage
	if i%2 == 1 {
		typ = websocket.BinaryMessage
	}
	b := vh.GenBody(len(id)*131+int(side)*7+i, 0, n, typ == websocket.TextMessage)
	return typ, b
}

var wsUpgrader = websocket.Upgrader{CheckOrigin: func(r *http.Request) bool { return true }}

type wsServerLog struct {
	mu       sync.Mutex
	got      map[string][]wsMsg
	closedAt map[string]int64
	err      map[string]string
}

func newWSBackendHandler(log *wsServerLog, scripts *sync.Map) http.Handler {
	return http.HandlerFunc(func(w http.ResponseWriter, r *http.Request) {
		id := r.URL.Query().Get("id")
		v, _ := scripts.Load(id)
		sc, _ := v.(wsScript)
		c, err := wsUpgrader.Upgrade(w, r, nil)
		if err != nil {
			log.mu.Lock()
			log.err[id] = "upgrade: " + err.Error()
			log.mu.Unlock()
			return
		}
		defer c.Close()
		readerDone := make(chan struct{})
		go func() {
			defer close(readerDone)
			for {
				c.SetReadDeadline(time.Now().Add(10 * time.Minute))
				t, p, err := c.ReadMessage()
				if err != nil {
					log.mu.Lock()
					log.closedAt[id] = vh.NowNS()
					if !websocket.IsCloseError(err, websocket.CloseNormalClosure) {
						log.err[id] = "backend read: " + err.Error()
					}
					log.mu.Unlock()
					return
				}
				log.mu.Lock()
				log.got[id] = append(log.got[id], wsMsg{t, len(p), hashOf(p)})
				log.mu.Unlock()
			}
		}()
		for i, n := range sc.Backend {
			if sc.PauseMs > 0 && i == len(sc.Backend)/2 {
				time.Sleep(time.Duration(sc.PauseMs) * time.Millisecond)
			}
			t, p := wsPayload(id, 'b', i, n)
			if err := c.WriteMessage(t, p); err != nil {
				log.mu.Lock()
				log.err[id] = "backend write: " + err.Error()
				log.mu.Unlock()
				return
			}
		}
		if sc.BackendEnds {
			// close only after the client's whole sequence has arrived
			for w := 0; w < 20000; w++ {
				log.mu.Lock()
				n := len(log.got[id])
				log.mu.Unlock()
				if n >= len(sc.Client) {
					break
				}
				time.Sleep(time.Millisecond)
			}
			c.WriteControl(websocket.CloseMessage, websocket.FormatCloseMessage(websocket.CloseNormalClosure, "bye"), time.Now().Add(time.Minute))
		}
		select {
		case <-readerDone:
		case <-time.After(20 * time.Minute):
		}
	})
}

func hashOf(p []byte) uint64 {
	var h uint64 = 1469598103934665603
	for _, b := range p {
		h ^= uint64(b)
		h *= 1099511628211
	}
	return h
}

func c20Chain(spec string) config.PluginsConfig {
	pc := config.PluginsConfig{Enabled: true}
	for _, ch := range spec {
		switch ch {
		case 'L':
			pc.Chain = append(pc.Chain, config.PluginConfig{Name: "logging"})
		case 'S':
			pc.Chain = append(pc.Chain, config.PluginConfig{Name: "size_limit", Config: map[string]interface{}{"max_request_body": 1000, "max_response_body": 1000}})
		case 'G':
			pc.Chain = append(pc.Chain, config.PluginConfig{Name: "gzip", Config: map[string]interface{}{"level": 5, "min_size": 1, "content_types": []interface{}{"text/", "application/"}}})
		case 'H':
			pc.Chain = append(pc.Chain, config.PluginConfig{Name: "headers", Config: map[string]interface{}{"set": map[string]interface{}{"X-App": "Helios"}}})
		case 'R':
			pc.Chain = append(pc.Chain, config.PluginConfig{Name: "request-id"})
		}
	}
	if len(pc.Chain) == 0 {
		pc.Enabled = false
	}
	return pc
}

// respellConn rewrites the handshake's Connection / Upgrade header values in the first write.
type respellConn struct {
	net.Conn
	form int
	done bool
}

func (r *respellConn) Write(p []byte) (int, error) {
	if r.done {
		return r.Conn.Write(p)
	}
	r.done = true
	h := string(p)
	switch r.form {
	case 1:
		h = strings.Replace(h, "Connection: Upgrade\r\n", "Connection: keep-alive, Upgrade\r\n", 1)
	case 2:
		h = strings.Replace(h, "Connection: Upgrade\r\n", "Connection: upgrade\r\n", 1)
		h = strings.Replace(h, "Upgrade: websocket\r\n", "Upgrade: WebSocket\r\n", 1)
	}
	if _, err := r.Conn.Write([]byte(h)); err != nil {
		return 0, err
	}
	return len(p), nil
}

func c20RunTunnel(e *vh.Env, c c20Tunnel, o *vh.Out) {
	log := &wsServerLog{got: map[string][]wsMsg{}, closedAt: map[string]int64{}, err: map[string]string{}}
	scripts := &sync.Map{}
	bes := newBackends(2)
	defer closeBackends(bes)
	for _, b := range bes {
		b.SetExtra(newWSBackendHandler(log, scripts))
	}
	cfg := baseConfig(c.Strategy, bes)
	cfg.Plugins = c20Chain(c.Chain)
	cfg.Server.Timeouts = config.TimeoutConfig{Read: 5, Write: 5, Idle: 10, Handler: c.Handler, BackendRead: 5}
	cfg.Logging.RequestID.Enabled = true
	if c.Pool {
		cfg.LoadBalancer.WebSocketPool = config.WebSocketPoolConfig{Enabled: true, MaxIdle: 2, MaxActive: 4, IdleTimeoutSeconds: 30}
	}
	if c.Breaker {
		cfg.CircuitBreaker = config.CircuitBreakerConfig{Enabled: true, FailureThreshold: 2, SuccessThreshold: 1, IntervalSeconds: 3600, TimeoutSeconds: 3600}
	}
	sys, err := startSys(cfg, bes, true)
	if err != nil {
		o.Inconcl("startSys: %v", err)
		return
	}
	defer sys.Close()
	plain := func(status int) *vh.RawResp {
		sc := vh.Script{Status: status, Steps: []vh.Step{{Op: "write", N: 5}}}
		return vh.Do(sys.Addr, vh.RawReq{Method: "GET", Target: "/plain", Headers: [][2]string{{vh.ScriptHeader, sc.Encode()}, {"X-API-Key", "k"}}, Instant: true})
	}
	if c.Breaker {
		// one failure is on the breaker's count when the session starts (threshold 2)
		if r := plain(500); r.Status != 500 {
			o.Inconcl("the plain 500 before the session was answered %d", r.Status)
			return
		}
		defer func() {
			vh.Settle()
			if r := plain(200); r.Status != 200 {
				o.Viol("C20|tunnel|session-counted-as-failure|"+fmt.Sprintf("chain=%s", c.Chain), fmt.Sprintf("%s chain=%q: one failed request, then a WebSocket session, then a plain request is answered %d %q: the breaker (failure threshold 2) took the session for a failure", c.Strategy, c.Chain, r.Status, trunc(string(r.Body), 60)), nil)
				return
			}
			o.Obs("plain_requests_after_session_with_breaker", 1)
		}()
	}
	sc := c.Script
	scripts.Store(sc.ID, sc)
	ctx := fmt.Sprintf("%s chain=%q gzip-handshake=%v handshake-form=%d handler-timeout=%d pool=%v script=%s", c.Strategy, c.Chain, c.GzipHS, c.HSForm, c.Handler, c.Pool, vh.J(sc))
	sigc := fmt.Sprintf("chain=%s|handler=%d", c.Chain, c.Handler)
	hdr := http.Header{}
	if c.GzipHS {
		hdr.Set("Accept-Encoding", "gzip")
	}
	d := websocket.Dialer{HandshakeTimeout: 30 * time.Second}
	if c.HSForm != 0 {
		// the dialer insists on its own Connection header: respell it on the wire
		d.NetDial = func(network, addr string) (net.Conn, error) {
			nc, err := net.Dial(network, addr)
			if err != nil {
				return nil, err
			}
			return &respellConn{Conn: nc, form: c.HSForm}, nil
		}
	}
	conn, resp, err := d.Dial("ws://"+sys.Addr+"/ws/echo?id="+sc.ID, hdr)
	if err != nil {
		st := 0
		if resp != nil {
			st = resp.StatusCode
		}
		o.Viol("C20|tunnel|handshake|"+sigc, fmt.Sprintf("%s: websocket handshake through Helios failed: %v (status %d)", ctx, err, st), nil)
		return
	}
	defer conn.Close()
	var got []wsMsg
	var clientErr string
	var closedAt int64 = -1
	readerDone := make(chan struct{})
	go func() {
		defer close(readerDone)
		for {
			conn.SetReadDeadline(time.Now().Add(10 * time.Minute))
			t, p, err := conn.ReadMessage()
			if err != nil {
				closedAt = vh.NowNS()
				if !websocket.IsCloseError(err, websocket.CloseNormalClosure) {
					clientErr = err.Error()
				}
				return
			}
			got = append(got, wsMsg{t, len(p), hashOf(p)})
		}
	}()
	for i, n := range sc.Client {
		if sc.PauseMs > 0 && i == len(sc.Client)/2 {
			time.Sleep(time.Duration(sc.PauseMs) * time.Millisecond)
		}
		t, p := wsPayload(sc.ID, 'c', i, n)
		if err := conn.WriteMessage(t, p); err != nil {
			o.Viol("C20|tunnel|client-write|"+sigc, fmt.Sprintf("%s: writing client message %d failed: %v", ctx, i, err), nil)
			return
		}
	}
	var endAt int64
	if !sc.BackendEnds {
		// wait until the backend's sequence is complete on this side, then close
		for w := 0; w < 20000 && len(got) < len(sc.Backend) && closedAt < 0; w++ {
			time.Sleep(time.Millisecond)
		}
		endAt = vh.NowNS()
		conn.WriteControl(websocket.CloseMessage, websocket.FormatCloseMessage(websocket.CloseNormalClosure, "done"), time.Now().Add(time.Minute))
	}
	select {
	case <-readerDone:
	case <-time.After(15 * time.Minute):
		o.Viol("C20|tunnel|close-not-propagated|"+sigc, fmt.Sprintf("%s: the session was ended but the client never observed the close", ctx), nil)
		return
	}
	// let the backend observe the end
	for w := 0; w < 5000; w++ {
		log.mu.Lock()
		_, ok := log.closedAt[sc.ID]
		log.mu.Unlock()
		if ok {
			break
		}
		time.Sleep(time.Millisecond)
	}
	log.mu.Lock()
	bgot := append([]wsMsg(nil), log.got[sc.ID]...)
	bErr := log.err[sc.ID]
	bClosed, bHas := log.closedAt[sc.ID]
	log.mu.Unlock()
	o.Eval(1)
	o.Obs("sessions", 1)
	o.Obs("messages_relayed", int64(len(got)+len(bgot)))
	// what each side must have received
	cmp := func(side string, have []wsMsg, sizes []int, sender byte) bool {
		if len(have) != len(sizes) {
			o.Viol("C20|tunnel|lost-or-extra-messages|"+side+"|"+sigc, fmt.Sprintf("%s: the %s received %d messages, %d were sent (client error %q, backend error %q)", ctx, side, len(have), len(sizes), clientErr, bErr), nil)
			return false
		}
		for i, n := range sizes {
			t, p := wsPayload(sc.ID, sender, i, n)
			if have[i].Type != t || have[i].Len != len(p) || have[i].Hash != hashOf(p) {
				o.Viol("C20|tunnel|message-altered|"+side+"|"+sigc, fmt.Sprintf("%s: message %d arrived at the %s as type %d / %d bytes, sent as type %d / %d bytes", ctx, i, side, have[i].Type, have[i].Len, t, len(p)), nil)
				return false
			}
		}
		return true
	}
	if !cmp("client", got, sc.Backend, 'b') || !cmp("backend", bgot, sc.Client, 'c') {
		return
	}
	if clientErr != "" || bErr != "" {
		o.Viol("C20|tunnel|abnormal-close|"+sigc, fmt.Sprintf("%s: all messages arrived but the session did not end with a normal close: client %q backend %q", ctx, clientErr, bErr), nil)
		return
	}
	if !bHas {
		o.Viol("C20|tunnel|close-not-propagated|"+sigc, fmt.Sprintf("%s: the backend never observed the end of the session", ctx), nil)
		return
	}
	if !sc.BackendEnds && vh.IsSim && bClosed-endAt > int64(time.Second) {
		o.Viol("C20|tunnel|close-delayed|"+sigc, fmt.Sprintf("%s: the client closed at +%v, the backend saw it only %v later", ctx, time.Duration(endAt), time.Duration(bClosed-endAt)), nil)
		return
	}
	o.Obs("sessions_exact", 1)
}

// ------------------------------------------------------------------ pool: fake connections

type fakeConn struct {
	id     int
	closed atomic.Int32
	yield  bool
}

func (f *fakeConn) Read(b []byte) (int, error)  { return 0, net.ErrClosed }
func (f *fakeConn) Write(b []byte) (int, error) { return len(b), nil }
func (f *fakeConn) Close() error {
	if f.yield {
		vhYield("conn.close") // closing a socket is a scheduling point
	}
	f.closed.Add(1)
	return nil
}
func (f *fakeConn) LocalAddr() net.Addr                { return &net.TCPAddr{} }
func (f *fakeConn) RemoteAddr() net.Addr               { return &net.TCPAddr{} }
func (f *fakeConn) SetDeadline(t time.Time) error      { return nil }
func (f *fakeConn) SetReadDeadline(t time.Time) error  { return nil }
func (f *fakeConn) SetWriteDeadline(t time.Time) error { return nil }
func (f *fakeConn) isClosed() bool                     { return f.closed.Load() > 0 }

const c20Idle = 60 * time.Second

type c20PoolSeq struct {
	MaxIdle  int    `json:"max_idle"`
	Backends int    `json:"backends"`
	Prefix   string `json:"prefix"`
	Depth    int    `json:"depth"`
	Random   int    `json:"random,omitempty"`
}

// alphabet: p/P put on backend 0/1, g/G get, c/C close a held connection, a +10s, i +61s, t +30s, s shutdown
func c20PoolAlphabet(c c20PoolSeq) string {
	if c.Backends == 1 {
		return "pgcaits"
	}
	return "pPgGcCaits"
}

func c20RunPoolSeq(c c20PoolSeq, seq string, o *vh.Out) {
	pool := loadbalancer.NewWebSocketPool(c.MaxIdle, 10, c20Idle)
	type st struct {
		idle   map[*fakeConn]time.Time
		holder map[*fakeConn]bool
	}
	bs := []*st{{map[*fakeConn]time.Time{}, map[*fakeConn]bool{}}, {map[*fakeConn]time.Time{}, map[*fakeConn]bool{}}}
	names := []string{"b0", "b1"}
	nextID := 0
	shut := false
	ctx := func(i int) string { return fmt.Sprintf("max_idle=%d seq=%s step %d", c.MaxIdle, seq, i) }
	viol := func(kind string, i int, msg string) {
		o.Viol("C20|pool|"+kind, ctx(i)+": "+msg, map[string]any{"seq": seq})
	}
	for i := 0; i < len(seq); i++ {
		ch := seq[i]
		b := 0
		if ch >= 'A' && ch <= 'Z' {
			b = 1
			ch = ch - 'A' + 'a'
		}
		s := bs[b]
		now := time.Now()
		switch ch {
		case 'p':
			// put back a held connection if there is one, else a fresh one
			var cn *fakeConn
			for h := range s.holder {
				cn = h
				break
			}
			if cn == nil {
				nextID++
				cn = &fakeConn{id: nextID}
			}
			delete(s.holder, cn)
			// drop model entries that the pool has closed (stale ones removed by cleanup or Get)
			live := 0
			for ic := range s.idle {
				if ic.isClosed() {
					delete(s.idle, ic)
				} else {
					live++
				}
			}
			ok := pool.Put(names[b], cn)
			o.Obs("puts", 1)
			// a full pool may refuse the newcomer or make room by closing one it holds: what counts is how many it keeps afterwards
			live = 0
			for ic := range s.idle {
				if ic.isClosed() {
					delete(s.idle, ic)
				} else {
					live++
				}
			}
			switch {
			case ok && shut:
				viol("put-accepted-after-shutdown", i, "Put returned true after Shutdown")
				return
			case ok && live >= c.MaxIdle:
				viol("max-idle-exceeded", i, fmt.Sprintf("Put accepted a connection and keeps %d others idle as well (max_idle %d)", live, c.MaxIdle))
				return
			case ok && cn.isClosed():
				viol("accepted-conn-closed", i, "Put returned true but closed the connection")
				return
			case !ok && !cn.isClosed():
				viol("rejected-conn-leaked", i, "Put returned false but left the connection open (nobody owns it any more)")
				return
			}
			if ok {
				s.idle[cn] = now
			}
		case 'g':
			got := pool.Get(names[b])
			o.Obs("gets", 1)
			if got == nil {
				continue
			}
			cn := got.(*fakeConn)
			at, inIdle := s.idle[cn]
			switch {
			case s.holder[cn] || bs[1-b].holder[cn]:
				viol("double-hand-out", i, fmt.Sprintf("Get returned connection #%d which another holder already has", cn.id))
				return
			case !inIdle:
				viol("unknown-conn", i, fmt.Sprintf("Get returned connection #%d which is not idle in this backend's pool", cn.id))
				return
			case cn.isClosed():
				viol("closed-conn-returned", i, fmt.Sprintf("Get returned connection #%d which is already closed", cn.id))
				return
			case now.Sub(at) > c20Idle+time.Millisecond:
				viol("stale-conn-returned", i, fmt.Sprintf("Get returned connection #%d which has been idle for %v (idle_timeout %v)", cn.id, now.Sub(at), c20Idle))
				return
			}
			delete(s.idle, cn)
			s.holder[cn] = true
			o.Obs("gets_hit", 1)
		case 'c':
			for h := range s.holder {
				pool.Close(names[b], h)
				delete(s.holder, h)
				if !h.isClosed() {
					viol("close-did-not-close", i, "Close left the connection open")
					return
				}
				break
			}
		case 'a':
			time.Sleep(10 * time.Second)
		case 'i':
			time.Sleep(61 * time.Second)
		case 't':
			time.Sleep(30 * time.Second)
		case 's':
			pool.Shutdown()
			shut = true
			for bi, sb := range bs {
				for ic := range sb.idle {
					if !ic.isClosed() {
						viol("shutdown-left-open", i, fmt.Sprintf("Shutdown left idle connection #%d of %s open", ic.id, names[bi]))
						return
					}
					delete(sb.idle, ic)
				}
			}
			o.Obs("shutdowns", 1)
		}
		// invariants after every step
		for bi := range bs {
			idle, _ := pool.Stats(names[bi])
			if idle > c.MaxIdle {
				viol("stats-over-max-idle", i, fmt.Sprintf("Stats reports %d idle connections for %s, max_idle is %d", idle, names[bi], c.MaxIdle))
				return
			}
			for h := range bs[bi].holder {
				if h.isClosed() {
					viol("held-conn-closed-by-pool", i, fmt.Sprintf("connection #%d is held by a caller but the pool closed it", h.id))
					return
				}
			}
		}
	}
	if !shut {
		pool.Shutdown()
		for bi, sb := range bs {
			for ic := range sb.idle {
				if !ic.isClosed() {
					viol("shutdown-left-open", len(seq), fmt.Sprintf("Shutdown left idle connection #%d of %s open", ic.id, names[bi]))
					return
				}
			}
		}
	}
}

// ---- porcupine bag model for the concurrent pool part
type c20In struct {
	Kind string
	B    string
	Conn int
}
type c20OutT struct {
	OK   bool
	Conn int // 0: nil
}

func c20BagModel(maxIdle int) porcupine.Model {
	// The state is the set of connections the pool accepted and has not handed out, plus a number e of them that may
	// already be gone: a full pool may refuse a newcomer or accept it and close one it holds (the statement fixes the
	// bound, not the eviction policy). A Get may come back empty-handed only if every member may be gone.
	return porcupine.Model{
		Partition: func(h []porcupine.Operation) [][]porcupine.Operation {
			by := map[string][]porcupine.Operation{}
			for _, op := range h {
				by[op.Input.(c20In).B] = append(by[op.Input.(c20In).B], op)
			}
			var out [][]porcupine.Operation
			for _, v := range by {
				out = append(out, v)
			}
			return out
		},
		Init: func() interface{} { return "0|" },
		Step: func(state, input, output interface{}) (bool, interface{}) {
			parts := strings.SplitN(state.(string), "|", 2)
			e, _ := strconv.Atoi(parts[0])
			set := map[string]bool{}
			for _, x := range strings.Fields(parts[1]) {
				set[x] = true
			}
			in, out := input.(c20In), output.(c20OutT)
			enc := func() string {
				var ks []string
				for k := range set {
					ks = append(ks, k)
				}
				sort.Strings(ks)
				if e > len(set) {
					e = len(set)
				}
				return fmt.Sprintf("%d|%s", e, strings.Join(ks, " "))
			}
			switch in.Kind {
			case "put":
				if !out.OK {
					// refused: only a pool that may be full refuses
					return len(set) >= maxIdle, state
				}
				if len(set)-e >= maxIdle {
					// surely full: accepting means one of the members was closed to make room
					e++
				} else if len(set) >= maxIdle {
					e++ // possibly full
				}
				set[fmt.Sprint(in.Conn)] = true
				return true, enc()
			case "get":
				if out.Conn == 0 {
					return len(set)-e <= 0, state
				}
				k := fmt.Sprint(out.Conn)
				if !set[k] {
					return false, state
				}
				delete(set, k)
				return true, enc()
			}
			return false, state
		},
	}
}

func init() {
	vh.AddPart("C20", "tunnel", "sim", vh.Opts{Shards: 16, TimeoutS: 500, TimeoutSThorough: 3000},
		func(e *vh.Env) []c20Tunnel {
			var cs []c20Tunnel
			letters := "LSGHR"
			var chains []string
			chains = append(chains, "")
			for _, a := range letters {
				chains = append(chains, string(a))
				for _, b := range letters {
					if a != b {
						chains = append(chains, string(a)+string(b))
						if e.Thorough() {
							for _, c3 := range letters {
								if c3 != a && c3 != b {
									chains = append(chains, string(a)+string(b)+string(c3))
								}
							}
						}
					}
				}
			}
			chains = append(chains, "LSGH", "LRSGH")
			r := e.Rand("c20tunnel")
			sizes := []int{0, 1, 2, 125, 126, 127, 65535, 65536, 65537, 100000, 4096, 32768}
			n := 0
			for ci, ch := range chains {
				for _, gz := range []bool{false, true} {
					for v := 0; v < e.Pick(2, 5); v++ {
						sc := wsScript{ID: fmt.Sprintf("s%d", n), BackendEnds: (ci+v)%2 == 0}
						for k := 0; k < 3+r.Intn(6); k++ {
							sc.Client = append(sc.Client, sizes[r.Intn(len(sizes))])
						}
						for k := 0; k < 3+r.Intn(6); k++ {
							sc.Backend = append(sc.Backend, sizes[r.Intn(len(sizes))])
						}
						handler := 0
						if v == 1 {
							handler = 2
							sc.PauseMs = 5000 // the session outlives every request-scoped timeout
						}
						cs = append(cs, c20Tunnel{Strategy: allStrategies[n%5], Chain: ch, GzipHS: gz, HSForm: (n / 2) % 3, Handler: handler, Pool: n%3 == 0, Breaker: n%4 == 1, Script: sc})
						n++
					}
				}
			}
			return cs
		},
		func(e *vh.Env, c c20Tunnel, o *vh.Out) {
			o.Need("sessions", "sessions_exact", "messages_relayed", "plain_requests_after_session_with_breaker")
			c20RunTunnel(e, c, o)
			o.Distinct(fmt.Sprintf("%s|%v|%d|%d|%v", c.Chain, c.GzipHS, c.HSForm, c.Handler, c.Script))
			if c.Chain == "LSGH" && c.GzipHS && c.Handler == 0 {
				o.Sample(map[string]any{"part": "tunnel", "case": c})
			}
		})

	vh.AddPart("C20", "pool-histories", "sim", vh.Opts{Shards: 160, ShardsThorough: 640, TimeoutS: 300, TimeoutSThorough: 1500},
		func(e *vh.Env) []c20PoolSeq {
			var cs []c20PoolSeq
			for mi := 0; mi <= 3; mi++ {
				for nb := 1; nb <= 2; nb++ {
					depth := e.Pick(5, 6) // one more step costs ten times the histories, and the per-process cost grows with their square (see below)
					if nb == 2 {
						depth--
					}
					c := c20PoolSeq{MaxIdle: mi, Backends: nb, Depth: depth}
					// every pool leaks its 30 s cleanup ticker goroutine (the product has no way to stop it), so each
					// virtual sleep wakes all pools ever created in the process: keep the number of histories per process small
					for _, ch := range c20PoolAlphabet(c) {
						for _, ch2 := range c20PoolAlphabet(c) {
							cc := c
							cc.Prefix = string(ch) + string(ch2)
							cs = append(cs, cc)
						}
					}
					for k := 0; k < e.Pick(4, 16); k++ {
						cr := c
						cr.Depth = 14
						cr.Random = e.Pick(40, 100)
						cr.Prefix = fmt.Sprint(k)
						cs = append(cs, cr)
					}
				}
			}
			return cs
		},
		func(e *vh.Env, c c20PoolSeq, o *vh.Out) {
			o.Need("puts", "gets", "gets_hit", "shutdowns")
			alpha := c20PoolAlphabet(c)
			if c.Random > 0 {
				r := e.Rand("c20pool", c.MaxIdle, c.Backends, c.Prefix)
				for i := 0; i < c.Random; i++ {
					b := make([]byte, c.Depth)
					for k := range b {
						b[k] = alpha[r.Intn(len(alpha))]
						if b[k] == 's' && r.Intn(3) > 0 {
							b[k] = 'p'
						}
					}
					c20RunPoolSeq(c, string(b), o)
					o.Eval(1)
					o.Distinct(fmt.Sprintf("%d|%s", c.MaxIdle, b))
				}
				return
			}
			buf := make([]byte, c.Depth)
			copy(buf, c.Prefix)
			n := int64(0)
			var rec func(i int)
			rec = func(i int) {
				if i == c.Depth {
					c20RunPoolSeq(c, string(buf), o)
					n++
					return
				}
				for k := 0; k < len(alpha); k++ {
					buf[i] = alpha[k]
					rec(i + 1)
				}
			}
			rec(len(c.Prefix))
			o.Eval(n)
			o.DistinctCount(n)
			if c.MaxIdle == 2 && c.Backends == 1 && c.Prefix == "pp" {
				o.Sample(map[string]any{"part": "pool-histories", "case": c, "example": "ppgitgs", "alphabet": "p put, g get, c close held, a +10s, i +61s (idle_timeout 60s), t +30s (cleanup tick), s shutdown; capitals: second backend"})
			}
		})

	// ---- interleavings: Put vs Shutdown, cleanup vs Get/Put
	type c20Sched struct {
		Kind    string `json:"kind"`
		MaxIdle int    `json:"max_idle"`
	}
	vh.AddPart("C20", "pool-interleavings", "sim", vh.Opts{NoConfirm: true, Shards: 8, TimeoutS: 400},
		func(e *vh.Env) []c20Sched {
			var cs []c20Sched
			for _, k := range []string{"put-vs-shutdown", "put-vs-shutdown-empty", "cleanup-vs-get", "cleanup-vs-put", "get-vs-get"} {
				for mi := 1; mi <= 3; mi++ {
					cs = append(cs, c20Sched{k, mi})
				}
			}
			return cs
		},
		func(e *vh.Env, c c20Sched, o *vh.Out) {
			o.Need("schedules")
			world := func(s *vh.Sched) func(*vh.Sched, vh.SchedResult) {
				pool := loadbalancer.NewWebSocketPool(c.MaxIdle, 10, c20Idle)
				var all []*fakeConn
				mk := func() *fakeConn {
					f := &fakeConn{id: len(all) + 1, yield: true}
					all = append(all, f)
					return f
				}
				var mu sync.Mutex
				held := map[*fakeConn]int{}
				accepted := map[*fakeConn]bool{}
				getOne := func() {
					if g := pool.Get("b0"); g != nil {
						mu.Lock()
						held[g.(*fakeConn)]++
						mu.Unlock()
					}
				}
				putOne := func() {
					f := mk()
					ok := pool.Put("b0", f)
					mu.Lock()
					accepted[f] = ok
					mu.Unlock()
				}
				shutdown := false
				switch c.Kind {
				case "put-vs-shutdown":
					pool.Put("b0", mk())
					s.Go(putOne)
					s.Go(func() { pool.Shutdown(); shutdown = true })
				case "put-vs-shutdown-empty":
					// the backend's pool exists but holds nothing at that moment
					pool.Put("b0", mk())
					if cn := pool.Get("b0"); cn != nil {
						held[cn.(*fakeConn)]++
					}
					s.Go(putOne)
					s.Go(func() { pool.Shutdown(); shutdown = true })
				case "get-vs-get":
					for i := 0; i < c.MaxIdle; i++ {
						pool.Put("b0", mk())
					}
					s.Go(getOne)
					s.Go(getOne)
					s.Go(putOne)
				default:
					// one stale and some fresh idle connections; the cleanup goroutine is caught at its hook at the 90 s tick
					pool.Put("b0", mk())
					time.Sleep(50 * time.Second)
					for i := 1; i < c.MaxIdle; i++ {
						pool.Put("b0", mk())
					}
					s.Adopt = map[string]bool{"ws.cleanup.gap": true}
					time.Sleep(40*time.Second + time.Millisecond)
					if c.Kind == "cleanup-vs-get" {
						s.Go(getOne)
						s.Go(getOne)
					} else {
						s.Go(putOne)
						s.Go(getOne)
					}
				}
				for _, f := range all {
					accepted[f] = true // pre-loaded connections were accepted
				}
				return func(s *vh.Sched, r vh.SchedResult) {
					o.Obs("schedules", 1)
					tr := fmt.Sprint(s.Trace)
					if r.Deadlock {
						o.Viol("C20|pool-sched|deadlock|"+c.Kind, fmt.Sprintf("%s max_idle=%d: stuck %v; trace %s", c.Kind, c.MaxIdle, r.Stuck, tr), map[string]any{"prefix": s.Choices})
						return
					}
					// drain what is still retrievable
					for _, f := range all {
						f.yield = false
					}
					var retrievable []*fakeConn
					if !shutdown {
						for {
							g := pool.Get("b0")
							if g == nil {
								break
							}
							retrievable = append(retrievable, g.(*fakeConn))
						}
					}
					inPool := map[*fakeConn]int{}
					for _, f := range retrievable {
						inPool[f]++
					}
					for _, f := range all {
						owners := held[f] + inPool[f]
						switch {
						case owners > 1:
							o.Viol("C20|pool-sched|double-hand-out|"+c.Kind, fmt.Sprintf("%s max_idle=%d: connection #%d ended up with %d owners (held %d, still in pool %d); trace %s", c.Kind, c.MaxIdle, f.id, owners, held[f], inPool[f], tr), map[string]any{"prefix": s.Choices, "trace": s.Trace})
							return
						case held[f] > 0 && f.isClosed():
							o.Viol("C20|pool-sched|closed-conn-handed-out|"+c.Kind, fmt.Sprintf("%s max_idle=%d: connection #%d was handed to a caller and closed by the pool; trace %s", c.Kind, c.MaxIdle, f.id, tr), map[string]any{"prefix": s.Choices, "trace": s.Trace})
							return
						case accepted[f] && owners == 0 && !f.isClosed():
							o.Viol("C20|pool-sched|accepted-conn-lost|"+c.Kind, fmt.Sprintf("%s max_idle=%d: connection #%d was accepted by Put but is neither closed nor retrievable; trace %s", c.Kind, c.MaxIdle, f.id, tr), map[string]any{"prefix": s.Choices, "trace": s.Trace})
							return
						case !accepted[f] && !f.isClosed():
							o.Viol("C20|pool-sched|rejected-conn-leaked|"+c.Kind, fmt.Sprintf("%s max_idle=%d: connection #%d was refused by Put and left open; trace %s", c.Kind, c.MaxIdle, f.id, tr), map[string]any{"prefix": s.Choices, "trace": s.Trace})
							return
						}
					}
					if len(retrievable) > c.MaxIdle {
						o.Viol("C20|pool-sched|max-idle-exceeded|"+c.Kind, fmt.Sprintf("%s: %d idle connections kept, max_idle %d; trace %s", c.Kind, len(retrievable), c.MaxIdle, tr), map[string]any{"prefix": s.Choices})
					}
				}
			}
			n, traces, _ := vh.Explore(world, -1, e.Pick(400, 4000), 300, 0)
			o.Eval(int64(n))
			for t := range traces {
				o.Distinct(fmt.Sprintf("%v|%s", c, t))
			}
			o.Obs("distinct_interleavings", int64(len(traces)))
			if c.MaxIdle == 2 {
				var one string
				for t := range traces {
					one = t
					break
				}
				o.Sample(map[string]any{"part": "pool-interleavings", "case": c, "interleavings": len(traces), "one_trace": one})
			}
		})

	// ---- concurrent Put/Get under the race detector, linearizability against the bag model
	type c20Conc struct {
		MaxIdle, Actors int
		Idx             int `json:"idx"`
	}
	vh.AddPart("C20", "pool-concurrent", "race", vh.Opts{Procs: 16, TimeoutS: 400, TimeoutSThorough: 2000},
		func(e *vh.Env) []c20Conc {
			var cs []c20Conc
			for i := 0; i < e.Pick(150, 2000); i++ {
				cs = append(cs, c20Conc{1 + i%3, 4 + i%5, i})
			}
			return cs
		},
		func(e *vh.Env, c c20Conc, o *vh.Out) {
			o.Need("histories_checked", "pool_ops", "first_put_vs_shutdown_trials")
			pool := loadbalancer.NewWebSocketPool(c.MaxIdle, 100, time.Hour)
			defer pool.Shutdown()
			var mu sync.Mutex
			var hist []porcupine.Operation
			var clock atomic.Int64
			var ids atomic.Int64
			var wg sync.WaitGroup
			double := atomic.Int64{}
			var owned sync.Map
			for a := 0; a < c.Actors; a++ {
				a := a
				wg.Add(1)
				go func() {
					defer wg.Done()
					r := e.Rand("c20conc", c.Idx, a)
					var mine []*fakeConn
					for i := 0; i < 12; i++ {
						b := []string{"b0", "b1"}[r.Intn(2)]
						if r.Intn(2) == 0 {
							var f *fakeConn
							if len(mine) > 0 && r.Intn(2) == 0 {
								f, mine = mine[len(mine)-1], mine[:len(mine)-1]
								owned.Delete(f)
							} else {
								f = &fakeConn{id: int(ids.Add(1))}
							}
							call := clock.Add(1)
							ok := pool.Put(b, f)
							ret := clock.Add(1)
							mu.Lock()
							hist = append(hist, porcupine.Operation{ClientId: a, Input: c20In{"put", b, f.id}, Call: call, Output: c20OutT{OK: ok}, Return: ret})
							mu.Unlock()
						} else {
							call := clock.Add(1)
							g := pool.Get(b)
							ret := clock.Add(1)
							out := c20OutT{}
							if g != nil {
								f := g.(*fakeConn)
								out.Conn = f.id
								if _, dup := owned.LoadOrStore(f, a); dup {
									double.Add(1)
								}
								mine = append(mine, f)
							}
							mu.Lock()
							hist = append(hist, porcupine.Operation{ClientId: a, Input: c20In{"get", b, 0}, Call: call, Output: out, Return: ret})
							mu.Unlock()
						}
					}
				}()
			}
			wg.Wait()
			if c.Idx%3 == 0 {
				// first Puts for backends the pool has not seen yet, racing Shutdown: once Shutdown has returned and the
				// Puts are over, nothing the pool accepted is still open
				for trial := 0; trial < 300; trial++ {
					p2 := loadbalancer.NewWebSocketPool(c.MaxIdle, 100, time.Hour)
					var start atomic.Bool
					var wg2 sync.WaitGroup
					conns := make([]*fakeConn, 4)
					okPut := make([]bool, 4)
					for g := 0; g < 4; g++ {
						g := g
						conns[g] = &fakeConn{id: 1000 + g}
						wg2.Add(1)
						go func() {
							defer wg2.Done()
							for !start.Load() {
							}
							for k := 0; k < (trial+g)%4; k++ {
								runtime.Gosched()
							}
							okPut[g] = p2.Put(fmt.Sprintf("fresh%d", g), conns[g])
						}()
					}
					wg2.Add(1)
					go func() {
						defer wg2.Done()
						for !start.Load() {
						}
						for k := 0; k < trial%3; k++ {
							runtime.Gosched()
						}
						p2.Shutdown()
					}()
					start.Store(true)
					wg2.Wait()
					o.Obs("first_put_vs_shutdown_trials", 1)
					for g, f := range conns {
						if okPut[g] && !f.isClosed() {
							o.Viol("C20|pool-conc|accepted-conn-open-after-shutdown", fmt.Sprintf("max_idle=%d: the first Put for backend fresh%d ran alongside Shutdown, was accepted, and its connection is still open after both returned (trial %d)", c.MaxIdle, g, trial), nil)
							return
						}
					}
				}
			}
			o.Eval(1)
			o.Obs("pool_ops", int64(len(hist)))
			o.Distinct(fmt.Sprintf("%v|%d", c, len(hist)))
			if double.Load() > 0 {
				o.Viol("C20|pool-conc|double-hand-out", fmt.Sprintf("max_idle=%d actors=%d: a connection was handed to two holders at once", c.MaxIdle, c.Actors), nil)
				return
			}
			res, _ := porcupine.CheckOperationsVerbose(c20BagModel(c.MaxIdle), hist, 20*time.Second)
			switch res {
			case porcupine.Ok:
				o.Obs("histories_checked", 1)
			case porcupine.Unknown:
				o.Inconcl("porcupine timed out on %d pool operations", len(hist))
			default:
				var sb strings.Builder
				sort.Slice(hist, func(i, j int) bool { return hist[i].Call < hist[j].Call })
				for _, op := range hist {
					fmt.Fprintf(&sb, "[%d..%d a%d %v->%v] ", op.Call, op.Return, op.ClientId, op.Input, op.Output)
				}
				o.Viol("C20|pool-conc|not-linearizable", fmt.Sprintf("max_idle=%d actors=%d: the recorded Put/Get history is not linearizable against the bag model: %s", c.MaxIdle, c.Actors, trunc(sb.String(), 1500)), nil)
			}
			if c.Idx == 0 {
				o.Sample(map[string]any{"part": "pool-concurrent", "case": c, "operations": len(hist), "checker": "porcupine v1.3.0, bag per backend with capacity max_idle"})
			}
		})
}

// ---- time passing inside Get (a hook delay between the pool lookup and the backend lock, where a real Get may wait
// for the lock): whatever Get hands out has not been idle for longer than idle_timeout at that moment
func init() {
	type c20Delay struct {
		IdleS int `json:"idle_before_get_s"`
		GapS  int `json:"delay_inside_get_s"`
	}
	vh.AddPart("C20", "pool-delays", "sim", vh.Opts{NoConfirm: true, Shards: 4, TimeoutS: 200},
		func(e *vh.Env) []c20Delay {
			var cs []c20Delay
			for _, idle := range []int{0, 10, 30, 59, 61} {
				for _, gap := range []int{0, 1, 2, 31, 61, 200} {
					cs = append(cs, c20Delay{idle, gap})
				}
			}
			return cs
		},
		func(e *vh.Env, c c20Delay, o *vh.Out) {
			o.Need("gets_with_delay", "stale_conns_withheld", "fresh_conns_returned")
			pool := loadbalancer.NewWebSocketPool(3, 8, c20Idle)
			defer pool.Shutdown()
			f := &fakeConn{id: 1}
			if !pool.Put("b0", f) {
				o.Inconcl("Put refused")
				return
			}
			put := time.Now()
			time.Sleep(time.Duration(c.IdleS) * time.Second)
			vhook.Set(func(pt string) {
				if pt == "ws.get.gap" {
					time.Sleep(time.Duration(c.GapS) * time.Second)
				}
			})
			got := pool.Get("b0")
			vhook.Set(nil)
			age := time.Since(put)
			o.Eval(1)
			o.Distinct(vh.J(c))
			o.Obs("gets_with_delay", 1)
			switch {
			case got != nil && age > c20Idle:
				o.Viol("C20|pool|stale-conn-handed-out", fmt.Sprintf("a connection put %v ago (idle_timeout %v; %d s idle, then Get spent %d s between the lookup and the backend lock) was handed out", age, c20Idle, c.IdleS, c.GapS), nil)
			case got == nil && age < c20Idle:
				o.Viol("C20|pool|fresh-conn-withheld", fmt.Sprintf("a connection put %v ago (idle_timeout %v) was not handed out", age, c20Idle), nil)
			case got == nil:
				o.Obs("stale_conns_withheld", 1)
				if !f.isClosed() {
					o.Viol("C20|pool|stale-conn-not-closed", fmt.Sprintf("a connection idle for %v was withheld but not closed", age), nil)
				}
			default:
				o.Obs("fresh_conns_returned", 1)
			}
			if c.IdleS == 30 && c.GapS == 31 {
				o.Sample(map[string]any{"part": "pool-delays", "case": c, "age_at_return": age.String(), "handed_out": got != nil})
			}
		})
}
