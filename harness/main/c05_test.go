package main

import (
	"fmt"
	"net/http/httptest"
	"sync"
	"time"

	"github.com/0xReLogic/Helios/internal/config"
	vh "github.com/0xReLogic/Helios/internal/verifh"
)

// C05: distribution contracts of round_robin, weighted_round_robin, least_connections.

func c05Cfg(strategy string, weights []int) *config.Config {
	cfg := baseConfig(strategy, nil)
	for i, w := range weights {
		cfg.Backends = append(cfg.Backends, config.BackendConfig{Name: fmt.Sprintf("b%d", i), Address: "http://127.0.0.1:9", Weight: w})
	}
	return cfg
}

func effW(w int) int {
	if w < 1 {
		return 1
	}
	return w
}

// pickSeq draws k backends through the balancer's own NextBackend.
func pickSeq(sys *Sys, k int) []string {
	out := make([]string, k)
	r := httptest.NewRequest("GET", "/", nil)
	for i := range out {
		b := sys.LB.NextBackend(r)
		if b == nil {
			out[i] = ""
		} else {
			out[i] = b.Name
		}
	}
	return out
}

type c05RR struct {
	N    int   `json:"n"`
	Hist []int `json:"hist"` // seeded history selector
	Idx  int   `json:"idx"`
}

type c05W struct {
	Weights []int `json:"weights"`
	Idx     int   `json:"idx"`
	Hist    bool  `json:"hist"`
}

// c05History applies a seeded history of picks / ejections / recoveries / adds / removes and
// returns the final member weights (by name) and the ejected set.
func c05History(e *vh.Env, sys *Sys, label string, idx int, weights map[string]int, o *vh.Out) (ops []string, ejected map[string]bool) {
	r := e.Rand(label, idx)
	adm := sys.admin()
	ejected = map[string]bool{}
	next := len(weights)
	for step := 0; step < 2+r.Intn(11); step++ {
		var names []string
		for _, b := range sys.LB.VerifBackends() {
			names = append(names, b.Name)
		}
		switch k := r.Intn(10); {
		case k < 4:
			n := 1 + r.Intn(400)
			for _, x := range pickSeq(sys, n) {
				// no pick, at any point of the history, may return an ejected or unknown backend
				nElig := 0
				for n := range weights {
					if !ejected[n] {
						nElig++
					}
				}
				if x == "" && nElig == 0 {
					continue // nothing is eligible: no pick is the right answer
				}
				if _, member := weights[x]; !member || ejected[x] {
					o.Viol("C05|history-picked-ineligible|"+sys.Cfg.LoadBalancer.Strategy, fmt.Sprintf("%s after %v: NextBackend returned %q (ejected=%v, member=%v)", sys.Cfg.LoadBalancer.Strategy, ops, x, ejected[x], member), map[string]any{"ops": ops})
					break
				}
			}
			ops = append(ops, fmt.Sprintf("pick x%d", n))
		case k < 6 && len(names) > 1:
			name := names[r.Intn(len(names))]
			sys.LB.MarkBackendUnhealthy(sys.liveBackend(name), time.Hour)
			ejected[name] = true
			ops = append(ops, "eject("+name+")")
			o.Obs("hist_ejects", 1)
		case k < 7:
			// everything recovers: the windows are re-armed individually below
			time.Sleep(2 * time.Hour)
			for n := range ejected {
				delete(ejected, n)
			}
			ops = append(ops, "recover-all")
			o.Obs("hist_recovers", 1)
		case k < 9 && len(names) < 8:
			name := fmt.Sprintf("b%d", next)
			next++
			w := r.Intn(8) - 1 // -1..6: weights below 1 count as 1
			rec := adminDo(adm, "POST", "/v1/backends/add", "127.0.0.1:1", nil, fmt.Sprintf(`{"name":%q,"address":"http://127.0.0.1:9","weight":%d}`, name, w))
			if rec.Code == 201 {
				weights[name] = effW(w)
				ops = append(ops, fmt.Sprintf("add(%s,w=%d)", name, w))
			}
		case len(names) > 2:
			name := names[r.Intn(len(names))]
			adminDo(adm, "POST", "/v1/backends/remove", "127.0.0.1:1", nil, fmt.Sprintf(`{"name":%q}`, name))
			delete(weights, name)
			delete(ejected, name)
			ops = append(ops, "remove("+name+")")
		}
	}
	return ops, ejected
}

func init() {
	// ---------------- round robin, sequential windows
	vh.AddPart("C05", "rr-windows", "sim", vh.Opts{Shards: 16, TimeoutS: 300, TimeoutSThorough: 2000},
		func(e *vh.Env) []c05RR {
			var cs []c05RR
			for n := 1; n <= 8; n++ {
				for i := 0; i < e.Pick(40, 600); i++ {
					cs = append(cs, c05RR{N: n, Idx: i})
				}
			}
			return cs
		},
		func(e *vh.Env, c c05RR, o *vh.Out) {
			o.Need("rr_windows_checked")
			ws := make([]int, c.N)
			for i := range ws {
				ws[i] = 1
			}
			sys, err := startSys(c05Cfg("round_robin", ws), nil, false)
			if err != nil {
				o.Inconcl("startSys: %v", err)
				return
			}
			defer sys.Close()
			weights := map[string]int{}
			for i := range ws {
				weights[fmt.Sprintf("b%d", i)] = 1
			}
			var ops []string
			ejected := map[string]bool{}
			if c.Idx > 0 {
				ops, ejected = c05History(e, sys, "c05rr", c.N*10000+c.Idx, weights, o)
			}
			elig := map[string]bool{}
			for n := range weights {
				if !ejected[n] {
					elig[n] = true
				}
			}
			ne := len(elig)
			o.Eval(1)
			o.Distinct(fmt.Sprintf("rr|%d|%v", c.N, ops))
			if ne == 0 {
				return
			}
			seq := pickSeq(sys, ne*5+3)
			for s := 0; s+ne <= len(seq); s++ {
				seen := map[string]int{}
				for _, x := range seq[s : s+ne] {
					seen[x]++
				}
				for n := range elig {
					if seen[n] != 1 {
						o.Viol("C05|rr|window", fmt.Sprintf("round_robin after %v: eligible=%d, window of %d picks at offset %d is %v (backend %s appears %d times)", ops, ne, ne, s, seq[s:s+ne], n, seen[n]), map[string]any{"ops": ops, "sequence": seq})
						return
					}
				}
				o.Obs("rr_windows_checked", 1)
			}
			if c.Idx == 1 && c.N == 4 {
				o.Sample(map[string]any{"part": "rr-windows", "n": c.N, "history": ops, "picks": seq})
			}
		})

	// ---------------- round robin, concurrent counting (race flavour: real parallelism)
	type c05Conc struct {
		N, G, K int
		Round   int `json:"round"`
	}
	vh.AddPart("C05", "rr-concurrent", "race", vh.Opts{Shards: 1, Procs: 16, TimeoutS: 300, TimeoutSThorough: 1500},
		func(e *vh.Env) []c05Conc {
			var cs []c05Conc
			for _, n := range []int{1, 2, 3, 4, 5, 7, 8} {
				for _, g := range []int{2, 4, 16, 64} {
					for r := 0; r < e.Pick(4, 20); r++ {
						cs = append(cs, c05Conc{n, g, 64 * e.Pick(30, 120), r})
					}
				}
			}
			return cs
		},
		func(e *vh.Env, c c05Conc, o *vh.Out) {
			o.Need("concurrent_picks")
			ws := make([]int, c.N)
			for i := range ws {
				ws[i] = 1
			}
			sys, err := startSys(c05Cfg("round_robin", ws), nil, false)
			if err != nil {
				o.Inconcl("startSys: %v", err)
				return
			}
			defer sys.Close()
			total := c.N * c.K // K is a multiple of 64, so every goroutine count divides the total
			per := total / c.G
			counts := make([]map[string]int, c.G)
			var wg sync.WaitGroup
			start := make(chan struct{})
			for g := 0; g < c.G; g++ {
				g := g
				counts[g] = map[string]int{}
				wg.Add(1)
				go func() {
					defer wg.Done()
					r := httptest.NewRequest("GET", "/", nil)
					<-start
					for i := 0; i < per; i++ {
						if b := sys.LB.NextBackend(r); b != nil {
							counts[g][b.Name]++
						} else {
							counts[g][""]++
						}
					}
				}()
			}
			close(start)
			wg.Wait()
			sum := map[string]int{}
			for _, m := range counts {
				for k, v := range m {
					sum[k] += v
				}
			}
			o.Eval(1)
			o.Obs("concurrent_picks", int64(total))
			o.Distinct(fmt.Sprintf("rrc|%v", c))
			for i := 0; i < c.N; i++ {
				if got := sum[fmt.Sprintf("b%d", i)]; got != c.K {
					o.Viol("C05|rr|concurrent-count", fmt.Sprintf("round_robin n=%d: %d goroutines made %d picks; b%d got %d, expected exactly %d (all counts %v)", c.N, c.G, total, i, got, c.K, sum), nil)
					return
				}
			}
			if c.N == 3 && c.G == 16 && c.Round == 0 {
				o.Sample(map[string]any{"part": "rr-concurrent", "case": c, "counts": sum})
			}
		})

	// ---------------- weighted round robin
	vh.AddPart("C05", "wrr", "sim", vh.Opts{Shards: 16, TimeoutS: 300, TimeoutSThorough: 2400},
		func(e *vh.Env) []c05W {
			var cs []c05W
			maxN := 4
			var rec func(prefix []int)
			rec = func(prefix []int) {
				if len(prefix) > 0 {
					cs = append(cs, c05W{Weights: append([]int(nil), prefix...)})
					for h := 1; h <= e.Pick(2, 6); h++ {
						cs = append(cs, c05W{Weights: append([]int(nil), prefix...), Idx: h, Hist: true})
					}
				}
				if len(prefix) == maxN {
					return
				}
				for w := 0; w <= 6; w++ {
					rec(append(prefix, w))
				}
			}
			rec(nil)
			r := e.Rand("c05wrr-large")
			for i := 0; i < e.Pick(40, 400); i++ {
				n := 5 + r.Intn(4)
				ws := make([]int, n)
				for k := range ws {
					ws[k] = r.Intn(13)
				}
				cs = append(cs, c05W{Weights: ws, Idx: i, Hist: i%2 == 1})
			}
			return cs
		},
		func(e *vh.Env, c c05W, o *vh.Out) {
			o.Need("wrr_fresh_windows", "wrr_bound_windows")
			sys, err := startSys(c05Cfg("weighted_round_robin", c.Weights), nil, false)
			if err != nil {
				o.Inconcl("startSys: %v", err)
				return
			}
			defer sys.Close()
			weights := map[string]int{}
			for i, w := range c.Weights {
				weights[fmt.Sprintf("b%d", i)] = effW(w)
			}
			o.Eval(1)
			if !c.Hist {
				// fresh pool: every window of sum(w) picks at every offset is exact
				W := 0
				for _, w := range weights {
					W += w
				}
				seq := pickSeq(sys, 3*W)
				for s := 0; s+W <= len(seq); s++ {
					cnt := map[string]int{}
					for _, x := range seq[s : s+W] {
						cnt[x]++
					}
					for n, w := range weights {
						if cnt[n] != w {
							o.Viol("C05|wrr|fresh-window", fmt.Sprintf("weighted_round_robin weights=%v (fresh pool): window of %d picks at offset %d gives %s %d picks, weight is %d", c.Weights, W, s, n, cnt[n], w), map[string]any{"sequence": seq})
							return
						}
					}
					o.Obs("wrr_fresh_windows", 1)
				}
				// one member ejected at every position of the rotation in turn: the next cycle of the others never
				// contains it (nor "nobody"), whatever credit it held when it was ejected
				if n := len(c.Weights); n >= 2 && (n <= 3 || (c.Weights[0]+c.Weights[3])%3 == 0) {
					rounds := 2 * W
					if rounds > 24 {
						rounds = 24
					}
					for round := 0; round < rounds; round++ {
						victim := fmt.Sprintf("b%d", round%n)
						pickSeq(sys, 1)
						sys.LB.MarkBackendUnhealthy(sys.liveBackend(victim), time.Second)
						for k, x := range pickSeq(sys, W-weights[victim]) {
							if x == victim || x == "" {
								o.Viol("C05|wrr|picked-ineligible", fmt.Sprintf("weighted_round_robin weights=%v: %s ejected after %d rounds of the rotation sweep, pick %d of the others' next cycle returned %q", c.Weights, victim, round, k, x), nil)
								return
							}
						}
						time.Sleep(1100 * time.Millisecond)
						o.Obs("wrr_eject_positions", 1)
					}
				}
				o.Distinct(fmt.Sprintf("wrr|fresh|%v", c.Weights))
				if len(c.Weights) == 3 && c.Weights[0] == 5 && c.Weights[1] == 1 && c.Weights[2] == 1 {
					o.Sample(map[string]any{"part": "wrr", "weights": c.Weights, "fresh_sequence": seq[:W]})
				}
				return
			}
			var preOps []string
			if c.Idx%3 == 0 && len(weights) >= 3 {
				// a member is ejected and then removed while it is ejected: what is left is a smaller pool, nothing else
				var names []string
				for _, b := range sys.LB.VerifBackends() {
					names = append(names, b.Name)
				}
				victim := names[c.Idx/3%len(names)]
				pickSeq(sys, 1+c.Idx%5)
				sys.LB.MarkBackendUnhealthy(sys.liveBackend(victim), time.Hour)
				adminDo(sys.admin(), "POST", "/v1/backends/remove", "127.0.0.1:1", nil, fmt.Sprintf(`{"name":%q}`, victim))
				delete(weights, victim)
				preOps = []string{"eject(" + victim + ")", "remove(" + victim + ")"}
				o.Obs("hist_removed_while_ejected", 1)
			}
			ops, ejected := c05History(e, sys, "c05wrr", c.Idx*7919+len(c.Weights), weights, o)
			ops = append(preOps, ops...)
			Wtot, WE := 0, 0
			for n, w := range weights {
				Wtot += w
				if !ejected[n] {
					WE += w
				}
			}
			o.Distinct(fmt.Sprintf("wrr|hist|%v|%v", c.Weights, ops))
			if WE == 0 {
				return
			}
			const M = 400
			seq := pickSeq(sys, M)
			// prefix sums per backend
			bound := 2 * float64(Wtot) / float64(WE)
			for n, w := range weights {
				pre := make([]int, M+1)
				for i, x := range seq {
					pre[i+1] = pre[i]
					if x == n {
						pre[i+1]++
					}
				}
				share := 0.0
				if !ejected[n] {
					share = float64(w) / float64(WE)
				}
				for a := 0; a < M; a++ {
					for b := a + 1; b <= M; b++ {
						dev := float64(pre[b]-pre[a]) - float64(b-a)*share
						if dev < 0 {
							dev = -dev
						}
						if dev > bound+1e-9 {
							o.Viol("C05|wrr|bound", fmt.Sprintf("weighted_round_robin weights=%v after %v: in picks [%d,%d) backend %s (weight %d, eligible=%v) got %d, proportional share is %.2f: deviation %.2f exceeds 2*W_total/W_eligible = %.2f", c.Weights, ops, a, b, n, w, !ejected[n], pre[b]-pre[a], float64(b-a)*share, dev, bound), map[string]any{"ops": ops})
							return
						}
					}
				}
				o.Obs("wrr_bound_windows", int64(M*(M+1)/2))
			}
			for _, x := range seq {
				if x == "" || ejected[x] {
					o.Viol("C05|wrr|picked-ineligible", fmt.Sprintf("weighted_round_robin weights=%v after %v picked %q", c.Weights, ops, x), nil)
					return
				}
			}
		})

	// ---------------- least connections with true in-flight counts
	type c05LC struct {
		K     []int `json:"k"`     // requests held open at each backend
		Eject int   `json:"eject"` // bit mask of ejected backends
	}
	vh.AddPart("C05", "least-conn", "sim", vh.Opts{Shards: 16, TimeoutS: 400, TimeoutSThorough: 2400},
		func(e *vh.Env) []c05LC {
			var cs []c05LC
			maxN := e.Pick(3, 4)
			for n := 1; n <= maxN; n++ {
				tot := 1
				for i := 0; i < n; i++ {
					tot *= 4
				}
				for x := 0; x < tot; x++ {
					k := make([]int, n)
					y := x
					for i := range k {
						k[i] = y % 4
						y /= 4
					}
					for m := 0; m < 1<<uint(n); m++ {
						cs = append(cs, c05LC{K: k, Eject: m})
					}
				}
			}
			return cs
		},
		func(e *vh.Env, c c05LC, o *vh.Out) {
			o.Need("lc_picks_checked", "lc_held_requests")
			n := len(c.K)
			bes := newBackends(n)
			defer closeBackends(bes)
			lcCfg := baseConfig("least_connections", bes)
			lcCfg.Server.Timeouts.Write = 3600 // requests are held open for up to 18 s: longer than the default write timeout, after which Helios gives a request up
			sys, err := startSys(lcCfg, bes, false)
			if err != nil {
				o.Inconcl("startSys: %v", err)
				return
			}
			defer sys.Close()
			live := sys.LB.VerifBackends()
			hold := vh.Script{Status: 200, Steps: []vh.Step{{Op: "hold", Key: "h"}}}
			var wg sync.WaitGroup
			// steer held requests to backend i by ejecting all others for 5 s
			for i := 0; i < n; i++ {
				if c.K[i] == 0 {
					continue
				}
				for j, b := range live {
					if j != i {
						sys.LB.MarkBackendUnhealthy(b, 5*time.Second)
					}
				}
				for q := 0; q < c.K[i]; q++ {
					wg.Add(1)
					go func() {
						defer wg.Done()
						sys.call("GET", "/held", "10.3.3.3:1", [][2]string{{vh.ScriptHeader, hold.Encode()}}, nil)
					}()
				}
				// wait until they are inside the backend's handler
				for t := 0; t < 1000 && bes[i].Inflight() < c.K[i]; t++ {
					time.Sleep(time.Millisecond)
				}
				time.Sleep(6 * time.Second)
				o.Obs("lc_held_requests", int64(c.K[i]))
			}
			for i := range bes {
				if bes[i].Inflight() != c.K[i] {
					o.Inconcl("could not establish in-flight vector %v (backend %d has %d)", c.K, i, bes[i].Inflight())
					for _, b := range bes {
						b.Release("h")
					}
					wg.Wait()
					return
				}
			}
			min := 1 << 30
			for i, b := range live {
				if c.Eject&(1<<uint(i)) != 0 {
					sys.LB.MarkBackendUnhealthy(b, 30*time.Second)
				} else if c.K[i] < min {
					min = c.K[i]
				}
			}
			rec := sys.call("GET", "/probe", "10.3.3.4:1", nil, nil)
			o.Eval(1)
			o.Distinct(fmt.Sprintf("lc|%v|%d", c.K, c.Eject))
			by := servedBy(rec)
			if min == 1<<30 {
				if rec.Code != 503 {
					o.Viol("C05|lc|all-ejected", fmt.Sprintf("least_connections k=%v all ejected: status %d from %q", c.K, rec.Code, by), nil)
				}
			} else {
				idx := -1
				for i, b := range bes {
					if b.Name == by {
						idx = i
					}
				}
				switch {
				case rec.Code != 200 || idx < 0:
					o.Viol("C05|lc|no-service", fmt.Sprintf("least_connections in-flight=%v ejected-mask=%b: status %d from %q", c.K, c.Eject, rec.Code, by), nil)
				case c.Eject&(1<<uint(idx)) != 0:
					o.Viol("C05|lc|picked-ejected", fmt.Sprintf("least_connections in-flight=%v ejected-mask=%b: served by ejected %s", c.K, c.Eject, by), nil)
				case c.K[idx] != min:
					o.Viol("C05|lc|not-minimal", fmt.Sprintf("least_connections in-flight=%v ejected-mask=%b: served by %s with %d in flight, minimum among eligible is %d", c.K, c.Eject, by, c.K[idx], min), nil)
				default:
					o.Obs("lc_picks_checked", 1)
				}
			}
			for _, b := range bes {
				b.Release("h")
			}
			wg.Wait()
			if n == 3 && c.K[0] == 2 && c.K[1] == 0 && c.K[2] == 1 && c.Eject == 2 {
				o.Sample(map[string]any{"part": "least-conn", "held_open": c.K, "ejected_mask": c.Eject, "served_by": by})
			}
		})
}
