package main

import (
	"net/url"
	"os"
	"encoding/json"
	"fmt"
	"net/http"
	"sort"
	"strings"
	"sync"
	"sync/atomic"
	"time"

	"github.com/anishathalye/porcupine"

	"github.com/0xReLogic/Helios/internal/config"
	vh "github.com/0xReLogic/Helios/internal/verifh"
)

// C11: runtime reconfiguration through the admin API is atomic and consistent.

// Every Helios backend name has two scripted backends ("<name>@1", "<name>@2") so that the
// X-Backend header of a response identifies both the name and the address that served it.
type c11Pool struct {
	bes  map[string]*vh.Backend // key name@k
	list []*vh.Backend
}

func newC11Pool(names []string) *c11Pool {
	p := &c11Pool{bes: map[string]*vh.Backend{}}
	for _, n := range names {
		for k := 1; k <= 2; k++ {
			b := vh.NewBackend(fmt.Sprintf("%s@%d", n, k))
			p.bes[b.Name] = b
			p.list = append(p.list, b)
		}
	}
	return p
}

func (p *c11Pool) close() { closeBackends(p.list) }

type c11Member struct {
	Addr    string
	Weight  int
	Healthy bool
}

type c11Model struct {
	m        map[string]c11Member
	strategy string
}

func (m *c11Model) String() string {
	var names []string
	for n := range m.m {
		names = append(names, n)
	}
	sort.Strings(names)
	var sb strings.Builder
	for _, n := range names {
		fmt.Fprintf(&sb, "%s{%s w=%d healthy=%v} ", n, m.m[n].Addr, m.m[n].Weight, m.m[n].Healthy)
	}
	return sb.String() + "strategy=" + m.strategy
}

func c11Listing(infos []backendInfo) string {
	sort.Slice(infos, func(i, j int) bool { return infos[i].Name+infos[i].Address < infos[j].Name+infos[j].Address })
	var sb strings.Builder
	for _, b := range infos {
		fmt.Fprintf(&sb, "%s{%s w=%d healthy=%v} ", b.Name, b.Address, b.Weight, b.Healthy)
	}
	return sb.String()
}

type c11Op struct {
	Kind   string `json:"k"` // add remove strategy request
	Name   string `json:"n,omitempty"`
	Addr   int    `json:"a,omitempty"` // 1,2 good ; 0 unparsable ; 3 the address of a@1 under whatever name
	Weight int    `json:"w,omitempty"`
	Strat  string `json:"s,omitempty"`
}

func (o c11Op) String() string {
	switch o.Kind {
	case "add":
		return fmt.Sprintf("add(%s,addr%d,w=%d)", o.Name, o.Addr, o.Weight)
	case "remove":
		return "remove(" + o.Name + ")"
	case "strategy":
		return "strategy(" + o.Strat + ")"
	}
	return "request"
}

var c11SeqAlphabet = func() []c11Op {
	var a []c11Op
	for _, n := range []string{"a", "b", "c"} {
		for _, ad := range []int{1, 0} {
			for _, w := range []int{0, 3} {
				a = append(a, c11Op{Kind: "add", Name: n, Addr: ad, Weight: w})
			}
		}
		a = append(a, c11Op{Kind: "remove", Name: n})
	}
	a = append(a, c11Op{Kind: "add", Name: "c", Addr: 3, Weight: 2}) // two names, one address
	for _, s := range []string{"round_robin", "weighted_round_robin", "ip_hash", "ip_hash_consistent", "bogus"} {
		a = append(a, c11Op{Kind: "strategy", Strat: s})
	}
	a = append(a, c11Op{Kind: "request"})
	return a
}()

var c11FullAlphabet = func() []c11Op {
	var a []c11Op
	for _, n := range []string{"a", "b", "c"} {
		for _, ad := range []int{1, 2, 0} {
			for _, w := range []int{0, 1, 3} {
				a = append(a, c11Op{Kind: "add", Name: n, Addr: ad, Weight: w})
			}
		}
		a = append(a, c11Op{Kind: "remove", Name: n}, c11Op{Kind: "remove", Name: n})
		if n != "a" {
			a = append(a, c11Op{Kind: "add", Name: n, Addr: 3, Weight: 1})
		}
	}
	for _, s := range append(append([]string{}, allStrategies...), "bogus", "") {
		a = append(a, c11Op{Kind: "strategy", Strat: s})
	}
	for i := 0; i < 6; i++ {
		a = append(a, c11Op{Kind: "request"})
	}
	return a
}()

func c11AddrOf(p *c11Pool, name string, k int) string {
	if k == 0 {
		return "http://[::1"
	}
	if k == 3 {
		name, k = "a", 1 // a second name for the address backend a was configured with
	}
	return p.bes[fmt.Sprintf("%s@%d", name, k)].URL
}

// c11RunSeq runs one sequential history against the model.
func c11RunSeq(p *c11Pool, ops []c11Op, o *vh.Out) {
	cfg := baseConfig("round_robin", nil)
	cfg.Backends = []config.BackendConfig{{Name: "a", Address: c11AddrOf(p, "a", 1), Weight: 2}, {Name: "b", Address: c11AddrOf(p, "b", 1), Weight: 1}}
	sys, err := startSys(cfg, nil, false)
	if err != nil {
		o.Inconcl("startSys: %v", err)
		return
	}
	defer sys.Close()
	adm := sys.admin()
	// b is ejected for an hour: a strategy switch must preserve that
	sys.LB.MarkBackendUnhealthy(sys.liveBackend("b"), time.Hour)
	m := &c11Model{m: map[string]c11Member{"a": {c11AddrOf(p, "a", 1), 2, true}, "b": {c11AddrOf(p, "b", 1), 1, false}}, strategy: "round_robin"}
	var done []string
	fail := func(kind, msg string) {
		o.Viol("C11|seq|"+kind, fmt.Sprintf("after %v: %s", done, msg), map[string]any{"ops": ops})
	}
	for _, op := range ops {
		done = append(done, op.String())
		switch op.Kind {
		case "add":
			body, _ := json.Marshal(map[string]any{"name": op.Name, "address": c11AddrOf(p, op.Name, op.Addr), "weight": op.Weight})
			w := adminDo(adm, "POST", "/v1/backends/add", "127.0.0.1:1", nil, string(body))
			_, exists := m.m[op.Name]
			switch {
			case op.Addr == 0 || exists:
				if w.Code < 400 || w.Code >= 500 { // refused with a client error; which one the statement leaves open
					why := "the address cannot be parsed"
					if op.Addr != 0 {
						why = "the name is already in the pool"
					}
					fail("add-should-fail", fmt.Sprintf("%s answered %d although %s", op, w.Code, why))
					return
				}
				o.Obs("failed_ops", 1)
			default:
				if w.Code != 201 {
					fail("add-refused", fmt.Sprintf("%s answered %d %q", op, w.Code, trunc(w.Body.String(), 60)))
					return
				}
				wt := op.Weight
				if wt < 1 {
					wt = 1
				}
				m.m[op.Name] = c11Member{c11AddrOf(p, op.Name, op.Addr), wt, true}
			}
		case "remove":
			w := adminDo(adm, "POST", "/v1/backends/remove", "127.0.0.1:1", nil, fmt.Sprintf(`{"name":%q}`, op.Name))
			if w.Code != 200 {
				fail("remove-refused", fmt.Sprintf("%s answered %d", op, w.Code))
				return
			}
			delete(m.m, op.Name)
		case "strategy":
			w := adminDo(adm, "POST", "/v1/strategy", "127.0.0.1:1", nil, fmt.Sprintf(`{"strategy":%q}`, op.Strat))
			valid := false
			for _, s := range allStrategies {
				if s == op.Strat {
					valid = true
				}
			}
			if valid != (w.Code == 200) {
				fail("strategy-status", fmt.Sprintf("%s answered %d", op, w.Code))
				return
			}
			if valid {
				m.strategy = op.Strat
			} else {
				o.Obs("failed_ops", 1)
			}
		case "request":
			for _, client := range []string{"10.4.4.4:1", "10.4.4.5:1", "172.16.9.1:1", "192.168.3.77:1", "10.200.1.9:1", "8.8.8.8:1"} {
				rec := sys.call("GET", "/r", client, nil, nil)
				by := servedBy(rec)
				elig := 0
				for _, mem := range m.m {
					if mem.Healthy {
						elig++
					}
				}
				if elig == 0 {
					if rec.Code != 503 {
						fail("request-empty-pool", fmt.Sprintf("no eligible backend but the request got %d from %q", rec.Code, by))
						return
					}
					continue
				}
				if rec.Code != 200 || by == "" {
					// the harness's own servers first: a scripted backend that does not answer a direct request either
					// is no basis for a verdict about Helios (its port was lost or its listener died under load)
					for _, mem := range m.m {
						if !mem.Healthy {
							continue
						}
						if u, err := url.Parse(mem.Addr); err == nil {
							if rs := vh.Do(u.Host, vh.RawReq{Method: "GET", Target: "/selfcheck", TimeoutMs: 10000}); rs.Status != 200 {
								vh.FlagAnomaly(fmt.Sprintf("c11: scripted backend %s does not answer a direct request (status %d, %s)", mem.Addr, rs.Status, rs.Err))
								o.Inconcl("after %v: the scripted backend at %s does not answer a direct request (status %d, %q): harness fault, no verdict", done, mem.Addr, rs.Status, rs.Err)
								return
							}
						}
					}
					fail("request-failed", fmt.Sprintf("request got %d %q although %d backend(s) are listed and healthy", rec.Code, trunc(rec.Body.String(), 50), elig))
					return
				}
				// the server that answered is identified by its address; several names may be configured with it
				name := strings.SplitN(by, "@", 2)[0]
				listed, healthy := 0, 0
				for _, mem := range m.m {
					if mem.Addr == p.bes[by].URL {
						listed++
						if mem.Healthy {
							healthy++
						}
					}
				}
				_, nameListed := m.m[name]
				switch {
				case listed == 0 && nameListed:
					fail("served-by-old-address", fmt.Sprintf("request served by %s but %s is configured with the other address", by, name))
					return
				case listed == 0:
					fail("served-by-unlisted", fmt.Sprintf("request served by %s, whose address no backend in the pool has", by))
					return
				case healthy == 0:
					fail("served-by-ejected", fmt.Sprintf("request served by %s, every backend with that address is ejected", by))
					return
				}
				o.Obs("requests_served", 1)
			}
		}
		// the listing equals the model after every step
		infos, err := listBackends(adm)
		if err != nil {
			fail("list", err.Error())
			return
		}
		var want []backendInfo
		for n, mem := range m.m {
			want = append(want, backendInfo{Name: n, Address: mem.Addr, Weight: mem.Weight, Healthy: mem.Healthy})
		}
		for i := range infos {
			infos[i].Active = 0
		}
		if got, exp := c11Listing(infos), c11Listing(want); got != exp {
			fail("list-differs|"+op.Kind, fmt.Sprintf("listing is [%s], model says [%s]", got, exp))
			return
		}
		if sys.Cfg.LoadBalancer.Strategy != m.strategy {
			fail("strategy-differs", fmt.Sprintf("strategy is %s, model says %s", sys.Cfg.LoadBalancer.Strategy, m.strategy))
			return
		}
		o.Obs("steps_checked", 1)
	}
}

type c11SeqCase struct {
	Prefix []int `json:"prefix"` // indices into the alphabet
	Depth  int   `json:"depth"`
	Random int   `json:"random,omitempty"`
	Idx    int   `json:"idx"`
}

// ---- porcupine model: one register per backend name
type c11In struct {
	Kind string // add remove list served
	Name string
}
type c11Out struct {
	Status   int  // add: 201 / 400 ; remove: 200
	Contains bool // list
}

var c11PorcModel = porcupine.Model{
	Partition: func(history []porcupine.Operation) [][]porcupine.Operation {
		by := map[string][]porcupine.Operation{}
		for _, op := range history {
			n := op.Input.(c11In).Name
			by[n] = append(by[n], op)
		}
		var out [][]porcupine.Operation
		for _, v := range by {
			out = append(out, v)
		}
		return out
	},
	Init: func() interface{} { return false },
	Step: func(state, input, output interface{}) (bool, interface{}) {
		present := state.(bool)
		in, out := input.(c11In), output.(c11Out)
		switch in.Kind {
		case "add":
			if present {
				return out.Status >= 400 && out.Status < 500, true
			}
			return out.Status == 201, true
		case "remove":
			return out.Status == 200, false
		case "list":
			return out.Contains == present, present
		case "served":
			return present, present
		}
		return false, state
	},
	DescribeOperation: func(input, output interface{}) string {
		return fmt.Sprintf("%v -> %v", input, output)
	},
}

func init() {
	vh.AddPart("C11", "sequential", "sim", vh.Opts{Shards: 16, TimeoutS: 400, TimeoutSThorough: 3000},
		func(e *vh.Env) []c11SeqCase {
			var cs []c11SeqCase
			depth := e.Pick(4, 5)
			for i := range c11SeqAlphabet {
				for j := range c11SeqAlphabet {
					cs = append(cs, c11SeqCase{Prefix: []int{i, j}, Depth: depth})
				}
			}
			for i := 0; i < e.Pick(64, 640); i++ {
				cs = append(cs, c11SeqCase{Depth: 10, Random: e.Pick(40, 200), Idx: i})
			}
			return cs
		},
		func(e *vh.Env, c c11SeqCase, o *vh.Out) {
			o.Need("steps_checked", "requests_served", "failed_ops")
			p := newC11Pool([]string{"a", "b", "c"})
			defer p.close()
			if c.Random > 0 {
				r := e.Rand("c11seq", c.Idx)
				for i := 0; i < c.Random; i++ {
					ops := make([]c11Op, c.Depth)
					for k := range ops {
						ops[k] = c11FullAlphabet[r.Intn(len(c11FullAlphabet))]
					}
					o.Unit(fmt.Sprint(ops), func(o *vh.Out) { c11RunSeq(p, ops, o) })
					o.Eval(1)
					o.Distinct(fmt.Sprintf("%v", ops))
				}
				return
			}
			idx := make([]int, c.Depth)
			copy(idx, c.Prefix)
			n := int64(0)
			var rec func(i int)
			rec = func(i int) {
				if i == c.Depth {
					ops := make([]c11Op, c.Depth)
					for k, x := range idx {
						ops[k] = c11SeqAlphabet[x]
					}
					o.Unit(fmt.Sprint(ops), func(o *vh.Out) { c11RunSeq(p, ops, o) })
					n++
					return
				}
				for k := range c11SeqAlphabet {
					idx[i] = k
					rec(i + 1)
				}
			}
			rec(len(c.Prefix))
			o.Eval(n)
			o.DistinctCount(n)
			if c.Prefix[0] == 0 && c.Prefix[1] == 5 {
				o.Sample(map[string]any{"part": "sequential", "prefix": []string{c11SeqAlphabet[0].String(), c11SeqAlphabet[5].String()}, "depth": c.Depth, "alphabet_size": len(c11SeqAlphabet), "initial_pool": "a (healthy, w=2), b (ejected for 1h, w=1), strategy round_robin"})
			}
		})

	type c11Conc struct {
		Strategy string `json:"strategy"`
		Admins   int    `json:"admins"`
		Idx      int    `json:"idx"`
	}
	vh.AddPart("C11", "concurrent", "race", vh.Opts{Procs: 16, TimeoutS: 400, TimeoutSThorough: 2500},
		func(e *vh.Env) []c11Conc {
			var cs []c11Conc
			for i := 0; i < e.Pick(120, 1500); i++ {
				cs = append(cs, c11Conc{allStrategies[i%5], 2 + i%3, i})
			}
			return cs
		},
		func(e *vh.Env, c c11Conc, o *vh.Out) {
			o.Need("histories_checked", "ops_recorded", "traffic_requests")
			names := []string{"a", "b", "c", "d"}
			storm := c.Idx%2 == 1
			if storm {
				// a larger pool and listings running all the time: a listing overlaps most removals
				names = []string{"a", "b", "c", "d", "e", "f", "g", "h", "i", "j"}
			}
			p := newC11Pool(append(append([]string{}, names...), "base"))
			defer p.close()
			cfg := baseConfig(c.Strategy, nil)
			// a permanent member keeps traffic servable whatever the admins do
			cfg.Backends = []config.BackendConfig{{Name: "base", Address: c11AddrOf(p, "base", 1), Weight: 1}}
			if c12Wedged {
				o.Inconcl("case %s skipped: an earlier case left deadlocked goroutines in this process", vh.J(c))
				return
			}
			sys, err := startSys(cfg, nil, true)
			if err != nil {
				o.Inconcl("startSys: %v", err)
				return
			}
			wedged := false
			defer func() {
				if !wedged {
					sys.Close()
				}
			}()
			adm := sys.admin()
			var mu sync.Mutex
			var hist []porcupine.Operation
			var clock atomic.Int64
			tick := func() int64 { return clock.Add(1) }
			record := func(cid int, in c11In, call int64, out c11Out) {
				ret := tick()
				mu.Lock()
				hist = append(hist, porcupine.Operation{ClientId: cid, Input: in, Call: call, Output: out, Return: ret})
				mu.Unlock()
			}
			var wg, wgAdm sync.WaitGroup
			stop := make(chan struct{})
			var trafficErr, listErr atomic.Value
			// doList records one listing as one read per name; the permanent member has to be in it, and no name twice
			doList := func(cid int) {
				call := tick()
				infos, err := listBackends(adm)
				if err != nil {
					return
				}
				ret := tick()
				count := map[string]int{}
				for _, bi := range infos {
					count[bi.Name]++
					if count[bi.Name] == 2 {
						listErr.Store(fmt.Sprintf("a listing names %q twice: %v", bi.Name, infos))
					}
				}
				if count["base"] == 0 {
					listErr.Store(fmt.Sprintf("a listing lacks the permanent member, which nobody removes: %v", infos))
				}
				o.Obs("listings", 1)
				mu.Lock()
				for _, nm := range names {
					hist = append(hist, porcupine.Operation{ClientId: cid, Input: c11In{"list", nm}, Call: call, Output: c11Out{Contains: count[nm] > 0}, Return: ret})
				}
				mu.Unlock()
			}
			for a := 0; a < c.Admins; a++ {
				a := a
				wgAdm.Add(1)
				go func() {
					defer wgAdm.Done()
					r := e.Rand("c11conc", c.Idx, a)
					for i := 0; i < 14; i++ {
						n := names[r.Intn(len(names))]
						switch k := r.Intn(10); {
						case k < 4:
							body, _ := json.Marshal(map[string]any{"name": n, "address": c11AddrOf(p, n, 1+r.Intn(2)), "weight": r.Intn(4)})
							call := tick()
							w := adminDo(adm, "POST", "/v1/backends/add", "127.0.0.1:1", nil, string(body))
							record(a, c11In{"add", n}, call, c11Out{Status: w.Code})
						case k < 7:
							call := tick()
							w := adminDo(adm, "POST", "/v1/backends/remove", "127.0.0.1:1", nil, fmt.Sprintf(`{"name":%q}`, n))
							record(a, c11In{"remove", n}, call, c11Out{Status: w.Code})
						case k < 8:
							adminDo(adm, "POST", "/v1/strategy", "127.0.0.1:1", nil, fmt.Sprintf(`{"strategy":%q}`, allStrategies[r.Intn(5)]))
						default:
							doList(a)
						}
					}
				}()
			}
			if storm {
				for l := 0; l < 6; l++ {
					l := l
					wg.Add(1)
					go func() {
						defer wg.Done()
						for i := 0; i < 400; i++ {
							select {
							case <-stop:
								return
							default:
							}
							doList(50 + l)
						}
					}()
				}
			}
			for t := 0; t < 4; t++ {
				t := t
				wg.Add(1)
				go func() {
					defer wg.Done()
					cl := &http.Client{Transport: &http.Transport{DisableKeepAlives: false}, Timeout: 20 * time.Second}
					for i := 0; ; i++ {
						select {
						case <-stop:
							return
						default:
						}
						call := tick()
						req, _ := http.NewRequest("GET", "http://"+sys.Addr+"/t", nil)
						req.Header.Set("X-Forwarded-For", fmt.Sprintf("10.8.%d.%d", t, i%250))
						resp, err := cl.Do(req)
						if err != nil {
							trafficErr.Store(fmt.Sprintf("traffic request failed: %v", err))
							return
						}
						by := resp.Header.Get("X-Backend")
						resp.Body.Close()
						o.Obs("traffic_requests", 1)
						if resp.StatusCode != 200 || by == "" {
							trafficErr.Store(fmt.Sprintf("traffic request got %d from %q while a permanent healthy backend exists", resp.StatusCode, by))
							return
						}
						name := strings.SplitN(by, "@", 2)[0]
						if name != "base" {
							record(100+t, c11In{"served", name}, call, c11Out{})
						}
					}
				}()
			}
			// admins finish on their own; traffic is stopped once they are done
			admDone := make(chan struct{})
			go func() { wgAdm.Wait(); close(admDone) }()
			select {
			case <-admDone:
			case <-time.After(60 * time.Second):
				// 14 admin operations per actor take milliseconds: look for goroutines parked on a lock for good
				stuck, all := c12Stalled()
				c12Wedged, wedged = true, true
				if stuck != "" {
					os.WriteFile(fmt.Sprintf("%s/c11-stall-%d.txt", e.TmpDir, c.Idx), []byte(all), 0o644)
					o.Viol("C11|conc|deadlock|"+c12StallFrame(stuck), fmt.Sprintf("%s admins=%d: the admin actors had not finished after 60 s and goroutines inside Helios stay parked on a lock with an unchanged stack over 8 s", c.Strategy, c.Admins), map[string]any{"stuck_goroutines": trunc(stuck, 6000)})
				} else {
					o.Inconcl("the admin actors had not finished after 60 s but no goroutine inside Helios is parked on a lock (case %s)", vh.J(c))
				}
				return
			}
			close(stop)
			wg.Wait()
			// final consistency: a last listing, recorded like any other
			call := tick()
			infos, _ := listBackends(adm)
			ret := tick()
			for _, nm := range names {
				has := false
				for _, bi := range infos {
					if bi.Name == nm {
						has = true
					}
				}
				hist = append(hist, porcupine.Operation{ClientId: 99, Input: c11In{"list", nm}, Call: call, Output: c11Out{Contains: has}, Return: ret})
			}
			o.Eval(1)
			o.Obs("ops_recorded", int64(len(hist)))
			if v := trafficErr.Load(); v != nil {
				o.Viol("C11|conc|traffic-failed", fmt.Sprintf("%s admins=%d: %v", c.Strategy, c.Admins, v), nil)
				return
			}
			if v := listErr.Load(); v != nil {
				o.Viol("C11|conc|listing-not-a-set-of-members", fmt.Sprintf("%s admins=%d: %v", c.Strategy, c.Admins, v), nil)
				return
			}
			res, info := porcupine.CheckOperationsVerbose(c11PorcModel, hist, 20*time.Second)
			switch res {
			case porcupine.Ok:
				o.Obs("histories_checked", 1)
			case porcupine.Unknown:
				o.Inconcl("porcupine timed out on a history of %d operations", len(hist))
			case porcupine.Illegal:
				_ = info
				// report the per-name sub-history that is not linearizable
				bad := ""
				for _, part := range c11PorcModel.Partition(hist) {
					if r, _ := porcupine.CheckOperationsVerbose(porcupine.Model{Init: c11PorcModel.Init, Step: c11PorcModel.Step}, part, 10*time.Second); r == porcupine.Illegal {
						sort.Slice(part, func(i, j int) bool { return part[i].Call < part[j].Call })
						var sb strings.Builder
						for _, op := range part {
							fmt.Fprintf(&sb, "[%d..%d c%d %v->%v] ", op.Call, op.Return, op.ClientId, op.Input, op.Output)
						}
						bad = sb.String()
						break
					}
				}
				o.Viol("C11|conc|not-linearizable", fmt.Sprintf("%s admins=%d: the recorded history of backend-set operations has no linearization; sub-history of one name: %s", c.Strategy, c.Admins, trunc(bad, 1500)), nil)
			}
			o.Distinct(fmt.Sprintf("%v|%d", c, len(hist)))
			if c.Idx == 0 {
				o.Sample(map[string]any{"part": "concurrent", "case": c, "operations_recorded": len(hist), "checker": "porcupine v1.3.0, register per backend name: add/remove/list-contains/served-by"})
			}
		})
}
