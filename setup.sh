#!/bin/sh
# Builds every flavour once from files on disk (warms the Go build cache) and runs the harness self-test.
set -e
cd "$(dirname "$0")"
exec ./check SELFTEST quick
